/* Byte-level model of the Serial backend under occa::memory: after one request every byte of the backing stores and of the
 * host destination equals what a byte-array model predicts (slices share their parent's bytes); an out-of-range request raises
 * an exception and changes no byte anywhere; CBMC's bounds checks on the real object sizes cover "no access outside".
 * OP 0 copyFrom(ptr) 1 copyTo(ptr) 2 copyFrom(memory) 3 slice(off,count) then copyFrom(ptr) through the slice. */
#include "vharness.h"
#include "C02b_roots.h"
#define NS 12
int main(void) {
  IN_ARR(char, s0, NS); IN_ARR(char, s1, NS); IN_ARR(char, hostsrc, NS); 
  char host[NS]; char m0[NS], m1[NS], mh[NS];
  IN(long, base0); IN(long, size0); IN(long, base1); IN(long, size1);
  IN(long, count); IN(long, off); IN(long, off2); IN(long, wcount); IN(long, woff);
  VASSUME(base0 >= 0 && base0 <= NS && size0 >= 0 && size0 <= NS && base0 + size0 <= NS && size0 % D0 == 0);
  VASSUME(base1 >= 0 && base1 <= NS && size1 >= 0 && size1 <= NS && base1 + size1 <= NS && size1 % D1 == 0);
  VASSUME(count >= -2 && count <= NS + 2 && off >= -2 && off <= NS + 2 && off2 >= -2 && off2 <= NS + 2 && wcount >= -2 && wcount <= NS + 2 && woff >= -2 && woff <= NS + 2);
  for (int i = 0; i < NS; i++) { m0[i] = s0[i]; m1[i] = s1[i]; host[i] = 0; mh[i] = 0; }
  b_setup(s0, NS, s1, NS, base0, size0, D0, base1, size1, D1);
  long L0 = size0 / D0;
  int r, valid;
#if OP == 0
  { long n = (count == -1) ? L0 : count;
    valid = count >= -1 && off >= 0 && (off + n) * D0 <= size0 && n * D0 <= NS;
    r = b_copy_from_ptr(hostsrc, count, off);
    if (valid) for (int i = 0; i < NS; i++) if (i < n * D0) m0[base0 + off * D0 + i] = hostsrc[i]; }
#elif OP == 1
  { long n = (count == -1) ? L0 : count;
    valid = count >= -1 && off >= 0 && (off + n) * D0 <= size0 && n * D0 <= NS;
    r = b_copy_to_ptr(host, count, off);
    if (valid) for (int i = 0; i < NS; i++) if (i < n * D0) mh[i] = m0[base0 + off * D0 + i]; }
#elif OP == 2
  { long n = (count == -1) ? L0 : count;
    valid = count >= -1 && off >= 0 && off2 >= 0 && (off + n) * D0 <= size0 && off2 * D1 + n * D0 <= size1;
    r = b_copy_from_mem(count, off, off2);
    if (valid) for (int i = 0; i < NS; i++) if (i < n * D0) m0[base0 + off * D0 + i] = m1[base1 + off2 * D1 + i]; }
#else
  { long n = (count == -1) ? L0 - off : count;
    int v1 = off >= 0 && count >= -1 && n >= 0 && off + n <= L0;
    long wn = (wcount == -1) ? n : wcount;
    valid = v1 && wcount >= -1 && woff >= 0 && (woff + wn) <= n && wn * D0 <= NS;
    r = b_slice_write(off, count, hostsrc, wcount, woff);
    if (valid) for (int i = 0; i < NS; i++) if (i < wn * D0) m0[base0 + (off + woff) * D0 + i] = hostsrc[i]; }
#endif
  OUT(r, r); OUT(valid, valid);
  VASSERT(r == (valid ? 0 : 1), "in range <=> succeeds; otherwise occa::exception");
  for (int i = 0; i < NS; i++) {
    VASSERT(s0[i] == m0[i], "every byte of the first buffer is what the byte-array model predicts (unchanged if the request was rejected)");
    VASSERT(s1[i] == m1[i], "every byte of the second buffer is what the model predicts");
    VASSERT(host[i] == mh[i], "every byte read to the host is what the model predicts");
  }
  VREACH();
  return 0;
}
