/* program d025 mode HIP : @dim(2, D1 + 1) access x(i0 ^ i1, i1 | 1): every index in range, dimensions in 1..4 */

#include "vharness.h"
/* ---- launch-model builtins (harness globals) ---- */
typedef struct { unsigned int x, y, z; } verif_uint3;
typedef verif_uint3 uint3;
verif_uint3 blockIdx, threadIdx, blockDim, gridDim;
#define hipBlockIdx_x blockIdx.x
#define hipThreadIdx_x threadIdx.x
static unsigned long get_group_id(int d) { return d == 0 ? blockIdx.x : d == 1 ? blockIdx.y : blockIdx.z; }
static unsigned long get_local_id(int d) { return d == 0 ? threadIdx.x : d == 1 ? threadIdx.y : threadIdx.z; }
/* DPC++ ranges are (z,y,x): dimension 2 is the fastest (x) */
static unsigned long item__get_group(int d) { return get_group_id(2 - d); }
static unsigned long item__get_local_id(int d) { return get_local_id(2 - d); }
#define VERIF_SHARED static
#define VERIF_ATOMIC_MARK ((void)0)
int launch_overflow, launch_negative;


/* ---- visit counting: the kernel body calls rec(...) once per executed iteration.  The watched tuple (wa,wb,wc)
 * is a symbolic input, so "the watched tuple is visited equally often by both, and the totals agree" for ALL
 * watched tuples is multiset equality of the visited iterator values. ---- */
#define REFCAP 1
static long wa, wb, wc; static int nvis[2], nwatch[2]; static int which; static long lastv[2][3];
static void rec3(void *out, long a, long b, long c) {
  if (which == 0) { if (nvis[0] >= REFCAP) { __CPROVER_assume(0); } }        /* stated bound on the sequential trip count */
  else if (nvis[1] >= REFCAP + 1) { VASSERT(0, "translated code executes more iterations than the sequential loop"); __CPROVER_assume(0); }
  nvis[which]++; lastv[which][0] = a; lastv[which][1] = b; lastv[which][2] = c;
  if (a == wa && b == wb && c == wc) nwatch[which]++;
}
static void rec(void *out, long a, long b) { rec3(out, a, b, 0); }

static int idarr[256] = {0, 1, 2, 3, 4, 5, 6, 7, 8, 9, 10, 11, 12, 13, 14, 15, 16, 17, 18, 19, 20, 21, 22, 23, 24, 25, 26, 27, 28, 29, 30, 31, 32, 33, 34, 35, 36, 37, 38, 39, 40, 41, 42, 43, 44, 45, 46, 47, 48, 49, 50, 51, 52, 53, 54, 55, 56, 57, 58, 59, 60, 61, 62, 63, 64, 65, 66, 67, 68, 69, 70, 71, 72, 73, 74, 75, 76, 77, 78, 79, 80, 81, 82, 83, 84, 85, 86, 87, 88, 89, 90, 91, 92, 93, 94, 95, 96, 97, 98, 99, 100, 101, 102, 103, 104, 105, 106, 107, 108, 109, 110, 111, 112, 113, 114, 115, 116, 117, 118, 119, 120, 121, 122, 123, 124, 125, 126, 127, 128, 129, 130, 131, 132, 133, 134, 135, 136, 137, 138, 139, 140, 141, 142, 143, 144, 145, 146, 147, 148, 149, 150, 151, 152, 153, 154, 155, 156, 157, 158, 159, 160, 161, 162, 163, 164, 165, 166, 167, 168, 169, 170, 171, 172, 173, 174, 175, 176, 177, 178, 179, 180, 181, 182, 183, 184, 185, 186, 187, 188, 189, 190, 191, 192, 193, 194, 195, 196, 197, 198, 199, 200, 201, 202, 203, 204, 205, 206, 207, 208, 209, 210, 211, 212, 213, 214, 215, 216, 217, 218, 219, 220, 221, 222, 223, 224, 225, 226, 227, 228, 229, 230, 231, 232, 233, 234, 235, 236, 237, 238, 239, 240, 241, 242, 243, 244, 245, 246, 247, 248, 249, 250, 251, 252, 253, 254, 255};

/* ---- reference: the OKL source read sequentially ---- */
void ref_d025(const int i0, const int i1, const int j0, const int j1, const int D0, const int D1, const int c, const int m, int *out, int *x) {
  rec3(out, ((i0 ^ i1) + ((2) * (i1 | 1))), ((j0) + ((2) * (j1))), 0);
}

/* ---- translation emitted by occa for mode HIP (normalised lexically) ---- */


   void _occa_d025_0(const int i0, const int i1, const int j0, const int j1, const int D0, const int D1, const int c, const int m, int * out, int * x) {
  {
    int o = 0 + blockIdx.x;
    {
      int n = 0 + threadIdx.x;
      rec3(out, x[(i0 ^ i1) + (2 * (i1 | 1))], x[j0 + (2 * j1)], 0);
    }
  }
}



static void LAUNCH__occa_d025_0(unsigned long *outer, unsigned long *inner, int od, int id, const int i0, const int i1, const int j0, const int j1, const int D0, const int D1, const int c, const int m, int * out, int * x) {
  for (int d = 0; d < 3; d++) if (outer[d] == 0 || inner[d] == 0) return;       /* empty grid: nothing runs */
  for (int d = 0; d < 3; d++) if ((long) outer[d] < 0 || (long) inner[d] < 0) { launch_negative = 1; }      /* a negative count stored into the unsigned occa::dim */
  for (int d = 0; d < 3; d++) if (outer[d] > 2 || inner[d] > 2) { launch_overflow = 1; return; }
  gridDim.x = outer[0]; gridDim.y = outer[1]; gridDim.z = outer[2]; blockDim.x = inner[0]; blockDim.y = inner[1]; blockDim.z = inner[2];
  for (unsigned bz = 0; bz < outer[2]; bz++) for (unsigned by = 0; by < outer[1]; by++) for (unsigned bx = 0; bx < outer[0]; bx++)
    for (unsigned tz = 0; tz < inner[2]; tz++) for (unsigned ty = 0; ty < inner[1]; ty++) for (unsigned tx = 0; tx < inner[0]; tx++) {
      blockIdx.x = bx; blockIdx.y = by; blockIdx.z = bz; threadIdx.x = tx; threadIdx.y = ty; threadIdx.z = tz;
      _occa_d025_0(i0, i1, j0, j1, D0, D1, c, m, out, x);
    }
}



 void tr_d025(const int i0, const int i1, const int j0, const int j1, const int D0, const int D1, const int c, const int m, void * out, void * x) {
  {
    unsigned long outer[3] = {1, 1, 1}, inner[3] = {1, 1, 1}; int outer_dims, inner_dims;
    outer_dims = 1;
    inner_dims = 1;
    int o = 0;
    outer[0] = 1 - 0;
    int n = 0;
    inner[0] = 1 - 0;
    LAUNCH__occa_d025_0(outer, inner, outer_dims, inner_dims, i0, i1, j0, j1, D0, D1, c, m, out, x);
  }
}


int main(void) {
  IN(int, i0);
  VASSUME(i0 >= -8 && i0 <= 8);
  IN(int, i1);
  VASSUME(i1 >= -8 && i1 <= 8);
  IN(int, j0);
  VASSUME(j0 >= 0 && j0 <= 3);
  IN(int, j1);
  VASSUME(j1 >= 0 && j1 <= 3);
  IN(int, D0);
  VASSUME(D0 >= 1 && D0 <= 4);
  IN(int, D1);
  VASSUME(D1 >= 1 && D1 <= 4);
  IN(int, c);
  VASSUME(c >= -2 && c <= 2);
  IN(int, m);
  VASSUME(m >= 0 && m <= 7);
  IN(long, watch_a); IN(long, watch_b); IN(long, watch_c); wa = watch_a; wb = watch_b; wc = watch_c;
  VASSUME((2) >= 1 && (2) <= 4);
  VASSUME((i0 ^ i1) >= 0 && (i0 ^ i1) < (2));
  VASSUME(j0 < (2));
  VASSUME((D1 + 1) >= 1 && (D1 + 1) <= 4);
  VASSUME((i1 | 1) >= 0 && (i1 | 1) < (D1 + 1));
  VASSUME(j1 < (D1 + 1));
  which = 0; ref_d025(i0, i1, j0, j1, D0, D1, c, m, 0, idarr);
  which = 1; tr_d025(i0, i1, j0, j1, D0, D1, c, m, 0, idarr);
  OUT(n_ref, nvis[0]); OUT(n_tr, nvis[1]); OUT(w_ref, nwatch[0]); OUT(w_tr, nwatch[1]);
  VASSERT(!launch_overflow, "a launch dimension exceeds the bound although the sequential trip counts are within it");
  VASSERT(nvis[0] == nvis[1], "number of executed iterations equals the sequential trip count");
  VASSERT(nwatch[0] == nwatch[1], "every iterator value is visited exactly as often by the translation as by the sequential loop");
  VASSERT(lastv[1][0] >= 0 && lastv[1][0] < (2) * (D1 + 1), "in-range indices map into [0, D0*...*Dk)");
  VREACH();
  return 0;
}