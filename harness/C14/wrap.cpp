// C14 wrappers: the real occa::primitive operators, reached through POD entry points.
#include "types/primitive.cpp"
#include "errstub.hpp"
#include <cstring>
#define VX extern "C" __attribute__((noinline))
using occa::primitive;
namespace pt = occa::primitiveType;

static primitive mk(int tag, unsigned long bits) {
  switch (tag) {
  case 1:  return primitive((bool) (bits & 1));
  case 2:  return primitive((int8_t) bits);
  case 3:  return primitive((uint8_t) bits);
  case 4:  return primitive((int16_t) bits);
  case 5:  return primitive((uint16_t) bits);
  case 6:  return primitive((int32_t) bits);
  case 7:  return primitive((uint32_t) bits);
  case 8:  return primitive((int64_t) bits);
  case 9:  return primitive((uint64_t) bits);
  case 10: { float f; uint32_t b = (uint32_t) bits; memcpy(&f, &b, 4); return primitive(f); }
  case 11: { double d; memcpy(&d, &bits, 8); return primitive(d); }
  }
  return primitive();
}
static int tagOf(const primitive &p) {
  for (int k = 0; k < 13; k++) if (p.type == (1 << k)) return k;
  return -2;
}
static unsigned long bitsOf(const primitive &p) {
  switch (p.type) {
  case pt::bool_:   return p.value.bool_ ? 1 : 0;
  case pt::int8_:   return (uint8_t) p.value.int8_;
  case pt::uint8_:  return p.value.uint8_;
  case pt::int16_:  return (uint16_t) p.value.int16_;
  case pt::uint16_: return p.value.uint16_;
  case pt::int32_:  return (uint32_t) p.value.int32_;
  case pt::uint32_: return p.value.uint32_;
  case pt::int64_:  return (uint64_t) p.value.int64_;
  case pt::uint64_: return p.value.uint64_;
  case pt::float_:  { uint32_t b; memcpy(&b, &p.value.float_, 4); return b; }
  case pt::double_: { uint64_t b; memcpy(&b, &p.value.double_, 8); return b; }
  }
  return 0;
}
// returns the tag index of the result type (log2 of primitiveType), -1 when occa raises an error
#define BIN(name, fn) VX int v_##name(int ta, unsigned long a, int tb, unsigned long b, unsigned long *r) { \
  try { primitive x = mk(ta, a), y = mk(tb, b); primitive z = primitive::fn(x, y); *r = bitsOf(z); return tagOf(z); } catch (...) { return -1; } }
#define UNA(name, fn) VX int v_##name(int ta, unsigned long a, unsigned long *r) { \
  try { primitive x = mk(ta, a); primitive z = primitive::fn(x); *r = bitsOf(z); return tagOf(z); } catch (...) { return -1; } }
BIN(add, add) BIN(sub, sub) BIN(mult, mult) BIN(div, div) BIN(mod, mod)
BIN(bitAnd, bitAnd) BIN(bitOr, bitOr) BIN(xor, xor_) BIN(leftShift, leftShift) BIN(rightShift, rightShift)
BIN(lessThan, lessThan) BIN(lessThanEq, lessThanEq) BIN(greaterThan, greaterThan) BIN(greaterThanEq, greaterThanEq)
BIN(equal, equal) BIN(notEqual, notEqual) BIN(and, and_) BIN(or, or_)
UNA(not, not_) UNA(positive, positive) UNA(negative, negative) UNA(tilde, tilde)

