/* program h0298i mode Metal : for (unsigned int i = (b & 15) << 1; -a <= i; i -= s; @inner) as @inner; |args|<=2^14, 1<=s<=1024, sequential trip count <= 5 */

#include "vharness.h"
/* ---- launch-model builtins (harness globals) ---- */
typedef struct { unsigned int x, y, z; } verif_uint3;
typedef verif_uint3 uint3;
verif_uint3 blockIdx, threadIdx, blockDim, gridDim;
#define hipBlockIdx_x blockIdx.x
#define hipThreadIdx_x threadIdx.x
static unsigned long get_group_id(int d) { return d == 0 ? blockIdx.x : d == 1 ? blockIdx.y : blockIdx.z; }
static unsigned long get_local_id(int d) { return d == 0 ? threadIdx.x : d == 1 ? threadIdx.y : threadIdx.z; }
/* DPC++ ranges are (z,y,x): dimension 2 is the fastest (x) */
static unsigned long item__get_group(int d) { return get_group_id(2 - d); }
static unsigned long item__get_local_id(int d) { return get_local_id(2 - d); }
#define VERIF_SHARED static
#define VERIF_ATOMIC_MARK ((void)0)
int launch_overflow, launch_negative;

#define VERIF_NT 8
static unsigned verif_tid;
static int verif_set_thread(unsigned x, unsigned y, unsigned z) { threadIdx.x = x; threadIdx.y = y; threadIdx.z = z; verif_tid = x + blockDim.x * (y + blockDim.y * z); return 1; }
#define VERIF_FOR_THREADS for (unsigned tz_ = 0; tz_ < blockDim.z; tz_++) for (unsigned ty_ = 0; ty_ < blockDim.y; ty_++) for (unsigned tx_ = 0; tx_ < blockDim.x; tx_++) if (verif_set_thread(tx_, ty_, tz_))
/* atomics: under the sequential emulation an atomic update is the plain update */
#define atomicAdd(p, v) (*(p) += (v))
#define atomicSub(p, v) (*(p) -= (v))
#define atomicAnd(p, v) (*(p) &= (v))
#define atomicOr(p, v) (*(p) |= (v))
#define atomicXor(p, v) (*(p) ^= (v))
#define atomicInc(p) ((*(p))++)
#define atomicDec(p) ((*(p))--)

#define VERIF_EXCL_WRAPPED 0

/* ---- visit counting: the kernel body calls rec(...) once per executed iteration.  The watched tuple (wa,wb,wc)
 * is a symbolic input, so "the watched tuple is visited equally often by both, and the totals agree" for ALL
 * watched tuples is multiset equality of the visited iterator values. ---- */
#define REFCAP 10
static long wa, wb, wc; static int nvis[2], nwatch[2]; static int which; static long lastv[2][3]; static int tr_wrapped, ref_negative;
static void rec3(void *out, long a, long b, long c) {
  if (which == 0 && (a < 0 || b < 0)) ref_negative = 1;      /* the sequential loop takes a negative iterator value */
  if (which == 1 && ((a >= (1L << 31) && a < (1L << 32)) || (b >= (1L << 31) && b < (1L << 32)))) tr_wrapped = 1;   /* a value 2^32 too large: 32-bit unsigned index arithmetic zero-extended into a 64-bit iterator */
  if (which == 0) { if (nvis[0] >= REFCAP) { __CPROVER_assume(0); } }        /* stated bound on the sequential trip count */
  else if (nvis[1] >= REFCAP + 1) { if (!(VERIF_EXCL_WRAPPED && tr_wrapped)) { VASSERT(0, "translated code executes more iterations than the sequential loop"); } __CPROVER_assume(0); }
  nvis[which]++; lastv[which][0] = a; lastv[which][1] = b; lastv[which][2] = c;
  if (a == wa && b == wb && c == wc) nwatch[which]++;
}
static void rec(void *out, long a, long b) { rec3(out, a, b, 0); }


/* ---- reference: the OKL source read sequentially ---- */
 void ref_h0298i(const int N, const int a, const int b, const int c, const int s, int *out) {
  for (int j = 0; j < 2; ++j) {
    for (unsigned int i = (b & 15) << 1; -a <= i; i -= s) {
      rec(out, i, j);
    }
  }
}

/* ---- translation emitted by occa for mode Metal (normalised lexically) ---- */




 void _occa_h0298i_0(int N, int a, int b, int c, int s, int * out) {
  {
    int j = 0 + blockIdx.x;
    {
      unsigned int i = ((b & 15) << 1) - (s * threadIdx.x);
      rec(out, i, j);
    }
  }
}



static void LAUNCH__occa_h0298i_0(unsigned long *outer, unsigned long *inner, int od, int id, int N, int a, int b, int c, int s, int * out) {
  if (outer[0] == 0 || outer[1] == 0 || outer[2] == 0 || inner[0] == 0 || inner[1] == 0 || inner[2] == 0) return;       /* empty grid: nothing runs */
  if ((long) outer[0] < 0 || (long) outer[1] < 0 || (long) outer[2] < 0 || (long) inner[0] < 0 || (long) inner[1] < 0 || (long) inner[2] < 0) launch_negative = 1;   /* a negative count stored into the unsigned occa::dim */
  if (outer[0] > 6 || outer[1] > 6 || outer[2] > 6 || inner[0] > 6 || inner[1] > 6 || inner[2] > 6) { launch_overflow = 1; return; }
  gridDim.x = outer[0]; gridDim.y = outer[1]; gridDim.z = outer[2]; blockDim.x = inner[0]; blockDim.y = inner[1]; blockDim.z = inner[2];
  for (unsigned bz = 0; bz < outer[2]; bz++) for (unsigned by = 0; by < outer[1]; by++) for (unsigned bx = 0; bx < outer[0]; bx++)
    for (unsigned tz = 0; tz < inner[2]; tz++) for (unsigned ty = 0; ty < inner[1]; ty++) for (unsigned tx = 0; tx < inner[0]; tx++) {
      blockIdx.x = bx; blockIdx.y = by; blockIdx.z = bz; threadIdx.x = tx; threadIdx.y = ty; threadIdx.z = tz;
      _occa_h0298i_0(N, a, b, c, s, out);
    }
}



 void tr_h0298i(const int N, const int a, const int b, const int c, const int s, void * out) {
  {
    unsigned long outer[3] = {1, 1, 1}, inner[3] = {1, 1, 1}; int outer_dims, inner_dims;
    outer_dims = 1;
    inner_dims = 1;
    int j = 0;
    outer[0] = 2 - 0;
    unsigned int i = (b & 15) << 1;
    inner[0] = (1 + ((b & 15) << 1) - (-a) + s - 1) / s;
    LAUNCH__occa_h0298i_0(outer, inner, outer_dims, inner_dims, N, a, b, c, s, out);
  }
}


int main(void) {
  IN(int, N);
  VASSUME(N >= -16384 && N <= 16384);
  IN(int, a);
  VASSUME(a >= -16384 && a <= 16384);
  IN(int, b);
  VASSUME(b >= -16384 && b <= 16384);
  IN(int, c);
  VASSUME(c >= -16384 && c <= 16384);
  IN(int, s);
  VASSUME(s >= 1 && s <= 1024);
  IN(long, watch_a); IN(long, watch_b); IN(long, watch_c); wa = watch_a; wb = watch_b; wc = watch_c;
  which = 0; ref_h0298i(N, a, b, c, s, 0);
  which = 1; tr_h0298i(N, a, b, c, s, 0);
#ifndef WITNESS_NOEXCL
  VASSUME(!(launch_negative && nvis[0] == 0));   /* known finding negative-trip-count excluded */
#endif
#ifndef WITNESS_NOEXCL
  VASSUME(!(((long)((b & 15) << 1)) < 0 || ((long)(-a)) < 0));   /* known finding unsigned-iterator-negative-operand excluded */
#endif
  OUT(n_ref, nvis[0]); OUT(n_tr, nvis[1]); OUT(w_ref, nwatch[0]); OUT(w_tr, nwatch[1]);
  VASSERT(!launch_overflow, "a launch dimension exceeds the bound although the sequential trip counts are within it");
  VASSERT(nvis[0] == nvis[1], "number of executed iterations equals the sequential trip count");
  VASSERT(nwatch[0] == nwatch[1], "every iterator value is visited exactly as often by the translation as by the sequential loop");
  VREACH();
  return 0;
}