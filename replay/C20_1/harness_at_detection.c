/* program siblings mode Metal : sibling @inner loops (implicit barrier) and sibling @outer loops (two launches) */

#include "vharness.h"
/* ---- launch-model builtins (harness globals) ---- */
typedef struct { unsigned int x, y, z; } verif_uint3;
typedef verif_uint3 uint3;
verif_uint3 blockIdx, threadIdx, blockDim, gridDim;
#define hipBlockIdx_x blockIdx.x
#define hipThreadIdx_x threadIdx.x
static unsigned long get_group_id(int d) { return d == 0 ? blockIdx.x : d == 1 ? blockIdx.y : blockIdx.z; }
static unsigned long get_local_id(int d) { return d == 0 ? threadIdx.x : d == 1 ? threadIdx.y : threadIdx.z; }
/* DPC++ ranges are (z,y,x): dimension 2 is the fastest (x) */
static unsigned long item__get_group(int d) { return get_group_id(2 - d); }
static unsigned long item__get_local_id(int d) { return get_local_id(2 - d); }
#define VERIF_SHARED static
#define VERIF_ATOMIC_MARK ((void)0)
int launch_overflow, launch_negative;

#define VERIF_NT 8
static unsigned verif_tid;
static int verif_set_thread(unsigned x, unsigned y, unsigned z) { threadIdx.x = x; threadIdx.y = y; threadIdx.z = z; verif_tid = x + blockDim.x * (y + blockDim.y * z); return 1; }
#define VERIF_FOR_THREADS for (unsigned tz_ = 0; tz_ < blockDim.z; tz_++) for (unsigned ty_ = 0; ty_ < blockDim.y; ty_++) for (unsigned tx_ = 0; tx_ < blockDim.x; tx_++) if (verif_set_thread(tx_, ty_, tz_))
/* atomics: under the sequential emulation an atomic update is the plain update */
#define atomicAdd(p, v) (*(p) += (v))
#define atomicSub(p, v) (*(p) -= (v))
#define atomicAnd(p, v) (*(p) &= (v))
#define atomicOr(p, v) (*(p) |= (v))
#define atomicXor(p, v) (*(p) ^= (v))
#define atomicInc(p) ((*(p))++)
#define atomicDec(p) ((*(p))--)


/* ---- reference: the OKL source read sequentially ---- */

 void ref_siblings(const int N, const int *in, int *tmp, int *out) {
  for (int o = 0; o < 2; ++o) {
    for (int i = 0; i < 4; ++i) {
      const int k = o * 4 + i;
      if (k < N) tmp[k] = in[k] + 1;
    }
    for (int i = 0; i < 4; ++i) {
      const int k = o * 4 + (3 - i);
      if (k < N) out[k] = tmp[k] * 2;
    }
  }
  for (int o = 0; o < 2; ++o) {
    for (int i = 0; i < 4; ++i) {
      const int k = o * 4 + i;
      if (k < N) out[k] = out[k] - in[k];
    }
  }
}
/* ---- translation emitted by occa for mode Metal (normalised lexically) ---- */




 void _occa_siblings_0(int N, const int * in, int * tmp, int * out) {
  {
    int o = 0 + blockIdx.x;
    {
      int i = 0 + threadIdx.x;
      const int k = o * 4 + i;
      if (k < N) {
        tmp[k] = in[k] + 1;
      }
    }
    {
      int i = 0 + threadIdx.x;
      const int k = o * 4 + (3 - i);
      if (k < N) {
        out[k] = tmp[k] * 2;
      }
    }
  }
}


 void _occa_siblings_1(int N, const int * in, int * tmp, int * out) {
  {
    int o = 0 + blockIdx.x;
    {
      int i = 0 + threadIdx.x;
      const int k = o * 4 + i;
      if (k < N) {
        out[k] = out[k] - in[k];
      }
    }
  }
}



static void LAUNCH__occa_siblings_0(unsigned long *outer, unsigned long *inner, int od, int id, int N, const int * in, int * tmp, int * out) {
  if (outer[0] == 0 || outer[1] == 0 || outer[2] == 0 || inner[0] == 0 || inner[1] == 0 || inner[2] == 0) return;       /* empty grid: nothing runs */
  if ((long) outer[0] < 0 || (long) outer[1] < 0 || (long) outer[2] < 0 || (long) inner[0] < 0 || (long) inner[1] < 0 || (long) inner[2] < 0) launch_negative = 1;   /* a negative count stored into the unsigned occa::dim */
  if (outer[0] > 4 || outer[1] > 4 || outer[2] > 4 || inner[0] > 4 || inner[1] > 4 || inner[2] > 4) { launch_overflow = 1; return; }
  gridDim.x = outer[0]; gridDim.y = outer[1]; gridDim.z = outer[2]; blockDim.x = inner[0]; blockDim.y = inner[1]; blockDim.z = inner[2];
  for (unsigned bz = 0; bz < outer[2]; bz++) for (unsigned by = 0; by < outer[1]; by++) for (unsigned bx = 0; bx < outer[0]; bx++)
    for (unsigned tz = 0; tz < inner[2]; tz++) for (unsigned ty = 0; ty < inner[1]; ty++) for (unsigned tx = 0; tx < inner[0]; tx++) {
      blockIdx.x = bx; blockIdx.y = by; blockIdx.z = bz; threadIdx.x = tx; threadIdx.y = ty; threadIdx.z = tz;
      _occa_siblings_0(N, in, tmp, out);
    }
}


static void LAUNCH__occa_siblings_1(unsigned long *outer, unsigned long *inner, int od, int id, int N, const int * in, int * tmp, int * out) {
  if (outer[0] == 0 || outer[1] == 0 || outer[2] == 0 || inner[0] == 0 || inner[1] == 0 || inner[2] == 0) return;       /* empty grid: nothing runs */
  if ((long) outer[0] < 0 || (long) outer[1] < 0 || (long) outer[2] < 0 || (long) inner[0] < 0 || (long) inner[1] < 0 || (long) inner[2] < 0) launch_negative = 1;   /* a negative count stored into the unsigned occa::dim */
  if (outer[0] > 4 || outer[1] > 4 || outer[2] > 4 || inner[0] > 4 || inner[1] > 4 || inner[2] > 4) { launch_overflow = 1; return; }
  gridDim.x = outer[0]; gridDim.y = outer[1]; gridDim.z = outer[2]; blockDim.x = inner[0]; blockDim.y = inner[1]; blockDim.z = inner[2];
  for (unsigned bz = 0; bz < outer[2]; bz++) for (unsigned by = 0; by < outer[1]; by++) for (unsigned bx = 0; bx < outer[0]; bx++)
    for (unsigned tz = 0; tz < inner[2]; tz++) for (unsigned ty = 0; ty < inner[1]; ty++) for (unsigned tx = 0; tx < inner[0]; tx++) {
      blockIdx.x = bx; blockIdx.y = by; blockIdx.z = bz; threadIdx.x = tx; threadIdx.y = ty; threadIdx.z = tz;
      _occa_siblings_1(N, in, tmp, out);
    }
}



 void tr_siblings(const int N, void * in, void * tmp, void * out) {
  {
    unsigned long outer[3] = {1, 1, 1}, inner[3] = {1, 1, 1}; int outer_dims, inner_dims;
    outer_dims = 1;
    inner_dims = 1;
    int o = 0;
    outer[0] = 2 - 0;
    int i = 0;
    inner[0] = 4 - 0;
    LAUNCH__occa_siblings_0(outer, inner, outer_dims, inner_dims, N, in, tmp, out);
  }
  {
    unsigned long outer[3] = {1, 1, 1}, inner[3] = {1, 1, 1}; int outer_dims, inner_dims;
    outer_dims = 1;
    inner_dims = 1;
    int o = 0;
    outer[0] = 2 - 0;
    int i = 0;
    inner[0] = 4 - 0;
    LAUNCH__occa_siblings_1(outer, inner, outer_dims, inner_dims, N, in, tmp, out);
  }
}


int main(void) {
  IN(int, N);
  VASSUME(N >= 0 && N <= 8);
  int in_ref[8], in_tr[8];
  { IN(int, in_0); in_ref[0] = in_0; in_tr[0] = in_0; VASSUME(in_0 >= -50 && in_0 <= 50); }
  { IN(int, in_1); in_ref[1] = in_1; in_tr[1] = in_1; VASSUME(in_1 >= -50 && in_1 <= 50); }
  { IN(int, in_2); in_ref[2] = in_2; in_tr[2] = in_2; VASSUME(in_2 >= -50 && in_2 <= 50); }
  { IN(int, in_3); in_ref[3] = in_3; in_tr[3] = in_3; VASSUME(in_3 >= -50 && in_3 <= 50); }
  { IN(int, in_4); in_ref[4] = in_4; in_tr[4] = in_4; VASSUME(in_4 >= -50 && in_4 <= 50); }
  { IN(int, in_5); in_ref[5] = in_5; in_tr[5] = in_5; VASSUME(in_5 >= -50 && in_5 <= 50); }
  { IN(int, in_6); in_ref[6] = in_6; in_tr[6] = in_6; VASSUME(in_6 >= -50 && in_6 <= 50); }
  { IN(int, in_7); in_ref[7] = in_7; in_tr[7] = in_7; VASSUME(in_7 >= -50 && in_7 <= 50); }
  int tmp_ref[8], tmp_tr[8];
  { IN(int, tmp_0); tmp_ref[0] = tmp_0; tmp_tr[0] = tmp_0; VASSUME(tmp_0 >= -50 && tmp_0 <= 50); }
  { IN(int, tmp_1); tmp_ref[1] = tmp_1; tmp_tr[1] = tmp_1; VASSUME(tmp_1 >= -50 && tmp_1 <= 50); }
  { IN(int, tmp_2); tmp_ref[2] = tmp_2; tmp_tr[2] = tmp_2; VASSUME(tmp_2 >= -50 && tmp_2 <= 50); }
  { IN(int, tmp_3); tmp_ref[3] = tmp_3; tmp_tr[3] = tmp_3; VASSUME(tmp_3 >= -50 && tmp_3 <= 50); }
  { IN(int, tmp_4); tmp_ref[4] = tmp_4; tmp_tr[4] = tmp_4; VASSUME(tmp_4 >= -50 && tmp_4 <= 50); }
  { IN(int, tmp_5); tmp_ref[5] = tmp_5; tmp_tr[5] = tmp_5; VASSUME(tmp_5 >= -50 && tmp_5 <= 50); }
  { IN(int, tmp_6); tmp_ref[6] = tmp_6; tmp_tr[6] = tmp_6; VASSUME(tmp_6 >= -50 && tmp_6 <= 50); }
  { IN(int, tmp_7); tmp_ref[7] = tmp_7; tmp_tr[7] = tmp_7; VASSUME(tmp_7 >= -50 && tmp_7 <= 50); }
  int out_ref[8], out_tr[8];
  { IN(int, out_0); out_ref[0] = out_0; out_tr[0] = out_0; VASSUME(out_0 >= -50 && out_0 <= 50); }
  { IN(int, out_1); out_ref[1] = out_1; out_tr[1] = out_1; VASSUME(out_1 >= -50 && out_1 <= 50); }
  { IN(int, out_2); out_ref[2] = out_2; out_tr[2] = out_2; VASSUME(out_2 >= -50 && out_2 <= 50); }
  { IN(int, out_3); out_ref[3] = out_3; out_tr[3] = out_3; VASSUME(out_3 >= -50 && out_3 <= 50); }
  { IN(int, out_4); out_ref[4] = out_4; out_tr[4] = out_4; VASSUME(out_4 >= -50 && out_4 <= 50); }
  { IN(int, out_5); out_ref[5] = out_5; out_tr[5] = out_5; VASSUME(out_5 >= -50 && out_5 <= 50); }
  { IN(int, out_6); out_ref[6] = out_6; out_tr[6] = out_6; VASSUME(out_6 >= -50 && out_6 <= 50); }
  { IN(int, out_7); out_ref[7] = out_7; out_tr[7] = out_7; VASSUME(out_7 >= -50 && out_7 <= 50); }
  ref_siblings(N, in_ref, tmp_ref, out_ref);
  tr_siblings(N, in_tr, tmp_tr, out_tr);
  VASSERT(!launch_overflow, "a launch dimension exceeds the bound");
  OUTI(in_ref, 0, in_ref[0]); OUTI(in_tr, 0, in_tr[0]);
  VASSERT(in_ref[0] == in_tr[0], "in[0]: the translated kernel leaves what the sequential reading of the OKL kernel leaves");
  OUTI(in_ref, 1, in_ref[1]); OUTI(in_tr, 1, in_tr[1]);
  VASSERT(in_ref[1] == in_tr[1], "in[1]: the translated kernel leaves what the sequential reading of the OKL kernel leaves");
  OUTI(in_ref, 2, in_ref[2]); OUTI(in_tr, 2, in_tr[2]);
  VASSERT(in_ref[2] == in_tr[2], "in[2]: the translated kernel leaves what the sequential reading of the OKL kernel leaves");
  OUTI(in_ref, 3, in_ref[3]); OUTI(in_tr, 3, in_tr[3]);
  VASSERT(in_ref[3] == in_tr[3], "in[3]: the translated kernel leaves what the sequential reading of the OKL kernel leaves");
  OUTI(in_ref, 4, in_ref[4]); OUTI(in_tr, 4, in_tr[4]);
  VASSERT(in_ref[4] == in_tr[4], "in[4]: the translated kernel leaves what the sequential reading of the OKL kernel leaves");
  OUTI(in_ref, 5, in_ref[5]); OUTI(in_tr, 5, in_tr[5]);
  VASSERT(in_ref[5] == in_tr[5], "in[5]: the translated kernel leaves what the sequential reading of the OKL kernel leaves");
  OUTI(in_ref, 6, in_ref[6]); OUTI(in_tr, 6, in_tr[6]);
  VASSERT(in_ref[6] == in_tr[6], "in[6]: the translated kernel leaves what the sequential reading of the OKL kernel leaves");
  OUTI(in_ref, 7, in_ref[7]); OUTI(in_tr, 7, in_tr[7]);
  VASSERT(in_ref[7] == in_tr[7], "in[7]: the translated kernel leaves what the sequential reading of the OKL kernel leaves");
  OUTI(tmp_ref, 0, tmp_ref[0]); OUTI(tmp_tr, 0, tmp_tr[0]);
  VASSERT(tmp_ref[0] == tmp_tr[0], "tmp[0]: the translated kernel leaves what the sequential reading of the OKL kernel leaves");
  OUTI(tmp_ref, 1, tmp_ref[1]); OUTI(tmp_tr, 1, tmp_tr[1]);
  VASSERT(tmp_ref[1] == tmp_tr[1], "tmp[1]: the translated kernel leaves what the sequential reading of the OKL kernel leaves");
  OUTI(tmp_ref, 2, tmp_ref[2]); OUTI(tmp_tr, 2, tmp_tr[2]);
  VASSERT(tmp_ref[2] == tmp_tr[2], "tmp[2]: the translated kernel leaves what the sequential reading of the OKL kernel leaves");
  OUTI(tmp_ref, 3, tmp_ref[3]); OUTI(tmp_tr, 3, tmp_tr[3]);
  VASSERT(tmp_ref[3] == tmp_tr[3], "tmp[3]: the translated kernel leaves what the sequential reading of the OKL kernel leaves");
  OUTI(tmp_ref, 4, tmp_ref[4]); OUTI(tmp_tr, 4, tmp_tr[4]);
  VASSERT(tmp_ref[4] == tmp_tr[4], "tmp[4]: the translated kernel leaves what the sequential reading of the OKL kernel leaves");
  OUTI(tmp_ref, 5, tmp_ref[5]); OUTI(tmp_tr, 5, tmp_tr[5]);
  VASSERT(tmp_ref[5] == tmp_tr[5], "tmp[5]: the translated kernel leaves what the sequential reading of the OKL kernel leaves");
  OUTI(tmp_ref, 6, tmp_ref[6]); OUTI(tmp_tr, 6, tmp_tr[6]);
  VASSERT(tmp_ref[6] == tmp_tr[6], "tmp[6]: the translated kernel leaves what the sequential reading of the OKL kernel leaves");
  OUTI(tmp_ref, 7, tmp_ref[7]); OUTI(tmp_tr, 7, tmp_tr[7]);
  VASSERT(tmp_ref[7] == tmp_tr[7], "tmp[7]: the translated kernel leaves what the sequential reading of the OKL kernel leaves");
  OUTI(out_ref, 0, out_ref[0]); OUTI(out_tr, 0, out_tr[0]);
  VASSERT(out_ref[0] == out_tr[0], "out[0]: the translated kernel leaves what the sequential reading of the OKL kernel leaves");
  OUTI(out_ref, 1, out_ref[1]); OUTI(out_tr, 1, out_tr[1]);
  VASSERT(out_ref[1] == out_tr[1], "out[1]: the translated kernel leaves what the sequential reading of the OKL kernel leaves");
  OUTI(out_ref, 2, out_ref[2]); OUTI(out_tr, 2, out_tr[2]);
  VASSERT(out_ref[2] == out_tr[2], "out[2]: the translated kernel leaves what the sequential reading of the OKL kernel leaves");
  OUTI(out_ref, 3, out_ref[3]); OUTI(out_tr, 3, out_tr[3]);
  VASSERT(out_ref[3] == out_tr[3], "out[3]: the translated kernel leaves what the sequential reading of the OKL kernel leaves");
  OUTI(out_ref, 4, out_ref[4]); OUTI(out_tr, 4, out_tr[4]);
  VASSERT(out_ref[4] == out_tr[4], "out[4]: the translated kernel leaves what the sequential reading of the OKL kernel leaves");
  OUTI(out_ref, 5, out_ref[5]); OUTI(out_tr, 5, out_tr[5]);
  VASSERT(out_ref[5] == out_tr[5], "out[5]: the translated kernel leaves what the sequential reading of the OKL kernel leaves");
  OUTI(out_ref, 6, out_ref[6]); OUTI(out_tr, 6, out_tr[6]);
  VASSERT(out_ref[6] == out_tr[6], "out[6]: the translated kernel leaves what the sequential reading of the OKL kernel leaves");
  OUTI(out_ref, 7, out_ref[7]); OUTI(out_tr, 7, out_tr[7]);
  VASSERT(out_ref[7] == out_tr[7], "out[7]: the translated kernel leaves what the sequential reading of the OKL kernel leaves");
  VREACH();
  return 0;
}