#!/bin/bash
# usage: try_mutant.sh <seeded dir name> <check id> [tier]  -- runs a check against a scratch worktree of /repo HEAD with the patch applied
# (isolated from /repo so that baseline runs are not disturbed); prints the tail of the check output.
S=/verif/seeded/$1; ID=$2; TIER=${3:-quick}
WT=/tmp/wt-try-$1
git -C /repo worktree remove --force $WT >/dev/null 2>&1; git -C /repo worktree add --detach $WT HEAD >/dev/null 2>&1 || exit 9
if ! git -C $WT apply $S/patch.diff; then echo "PATCH DOES NOT APPLY to HEAD"; git -C /repo worktree remove --force $WT; exit 8; fi
mkdir -p /tmp/try-ev/$1
cd /verif && VERIF_REPO=$WT VERIF_OCCA_BUILD=/var/tmp/verif-occa-mut VERIF_EVIDENCE_DIR=/tmp/try-ev/$1 VERIF_REPLAY_DIR=/tmp/try-ev/$1/replay ./check $ID --tier $TIER > /tmp/try-ev/$1/$ID.log 2>&1
rc=$?
echo "check $ID on mutant $1: exit $rc"; grep -a "VIOLATION\|INCONCLUSIVE\|OK property\|tier=" /tmp/try-ev/$1/$ID.log | cut -c1-240 | head -8
git -C /repo worktree remove --force $WT
