/* canBeCastedTo on flattened dtype vectors: exactly "equal sequences, or the longer one is a whole-number repetition of the
 * shorter one"; symmetric; never crashes (no division by zero, no out-of-bounds) - also for empty flattened dtypes. */
#include "vharness.h"
#include "C10_roots.h"
#ifndef NMAX
#define NMAX 4
#endif
static int ref_cast(int nf, const int *f, int nt, const int *t) {
  const int *s = f, *l = t; int ns = nf, nl = nt;
  if (nf > nt) { s = t; l = f; ns = nt; nl = nf; }
  if (ns == 0) return nl == 0;                 /* an empty type converts only to an empty type */
  if (nl % ns != 0) return 0;
  for (int i = 0; i < NMAX; i++) if (i < nl && l[i] != s[i % ns]) return 0;
  return 1;
}
int main(void) {
  IN(int, nf); IN(int, nt);
  IN_ARR(int, f, NMAX); IN_ARR(int, t, NMAX);
  VASSUME(nf >= 0 && nf <= NMAX && nt >= 0 && nt <= NMAX);
#ifdef EMPTY
  /* an empty struct dtype on one side */
  IN(int, dir);
  VASSUME(nt >= 1);
  for (int i = 0; i < NMAX; i++) { VASSUME(t[i] >= 0 && t[i] <= 2); }
  int re = d_cast_empty(nt, (char *) t, dir != 0);
  OUT(re, re);
  VASSERT(re == 0, "an empty dtype is not castable to or from a non-empty one, and asking does not crash");
  VREACH();
  return 0;
#endif
  VASSUME(nf >= 1 && nt >= 1);
  for (int i = 0; i < NMAX; i++) { VASSUME(f[i] >= 0 && f[i] <= 2); VASSUME(t[i] >= 0 && t[i] <= 2); }
  int r1 = d_cast(nf, (char *) f, nt, (char *) t);
  int r2 = d_cast(nt, (char *) t, nf, (char *) f);
  int ref = ref_cast(nf, f, nt, t);
  OUT(r1, r1); OUT(r2, r2); OUT(ref, ref);
  VASSERT(r1 != -1 && r2 != -1, "no exception");
  VASSERT(r1 == ref, "castable exactly when one flattened type is a whole-number repetition of the other");
  VASSERT(r1 == r2, "cast compatibility is symmetric");
  VREACH();
  return 0;
}
