#!/bin/bash
# usage: verify_mutants.sh <mutdir>...   ; each mutdir has patch.diff + demo.* + meta.json
# one scratch worktree (/tmp/wt-verify) is built once with tests; each patch is applied, built incrementally,
# ctest run, demo run, then reverted.  Results: <mutdir>/verify.log
WT=/tmp/wt-verify
if [ ! -d $WT ]; then git -C /repo worktree add --detach $WT HEAD >/dev/null 2>&1; fi
git -C $WT checkout -q --detach $(git -C /repo rev-parse HEAD); git -C $WT checkout -- . 
B=$WT/_build
cmake -S $WT -B $B -G Ninja -DOCCA_ENABLE_TESTS=ON -DCMAKE_BUILD_TYPE=Release >/dev/null
nice -n 5 cmake --build $B -j10 >/dev/null 2>&1 || { echo BASE BUILD FAILED; exit 1; }
for M in "$@"; do
  L=$M/verify.log; : > $L
  echo "== base (repo HEAD $(git -C /repo rev-parse --short HEAD))" >> $L
  rm -rf $B/occa; (cd $WT && OCCA_CACHE_DIR=$B/occa ctest --test-dir $B -j8 --timeout 900 2>&1 | tail -3) >> $L
  echo "== demo on base" >> $L
  (cd $M && bash ./run_demo.sh $WT $B) >> $L 2>&1; echo "demo rc(base)=$?" >> $L
  if ! git -C $WT apply --check $M/patch.diff 2>>$L; then echo "PATCH DOES NOT APPLY" >> $L; continue; fi
  git -C $WT apply $M/patch.diff
  nice -n 5 cmake --build $B -j10 >/dev/null 2>>$L || echo "MUTANT BUILD FAILED" >> $L
  echo "== mutant ctest" >> $L
  rm -rf $B/occa; (cd $WT && OCCA_CACHE_DIR=$B/occa ctest --test-dir $B -j8 --timeout 900 2>&1 | tail -3) >> $L
  echo "== demo on mutant" >> $L
  (cd $M && bash ./run_demo.sh $WT $B) >> $L 2>&1; echo "demo rc(mutant)=$?" >> $L
  git -C $WT checkout -- .
  nice -n 5 cmake --build $B -j10 >/dev/null 2>&1
done
