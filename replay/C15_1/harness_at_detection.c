/* program e025 mode Serial : expressions a && !b ;; !a || b ;; - (a - b) ;; -(a - b) - c ;; a - (b - c) ;; a - (b + c) ;; a / (b * c) ;; a / (b / c) ;; a % (b % c) ;; a * (b / c) ;; (a * b) / c ;; a - (b - (c - d)) ;; ((a - b) - c) - d ;; a << (b >> 1) ;; (a << b) >> 1 ;; a < b < c ;; a < (b < c) ;; a == b == c ;; a == (b == c) ;; a != b < c ;; (a != b) < c ;; a & b == c ;; (a & b) == c ;; a | b && c ;; a | (b && c) ;; a ^ b & c | d */

#include "vharness.h"
/* ---- launch-model builtins (harness globals) ---- */
typedef struct { unsigned int x, y, z; } verif_uint3;
typedef verif_uint3 uint3;
verif_uint3 blockIdx, threadIdx, blockDim, gridDim;
#define hipBlockIdx_x blockIdx.x
#define hipThreadIdx_x threadIdx.x
static unsigned long get_group_id(int d) { return d == 0 ? blockIdx.x : d == 1 ? blockIdx.y : blockIdx.z; }
static unsigned long get_local_id(int d) { return d == 0 ? threadIdx.x : d == 1 ? threadIdx.y : threadIdx.z; }
/* DPC++ ranges are (z,y,x): dimension 2 is the fastest (x) */
static unsigned long item__get_group(int d) { return get_group_id(2 - d); }
static unsigned long item__get_local_id(int d) { return get_local_id(2 - d); }
#define VERIF_SHARED static
#define VERIF_ATOMIC_MARK ((void)0)
int launch_overflow, launch_negative;


/* ---- reference: the OKL source read sequentially ---- */
 void ref_e025(const int A, const int B, const int C_, const int D, const unsigned int U, const int *P, int *out) {
  for (int o = 0; o < 1; ++o) {
    for (int n = 0; n < 1; ++n) {
      int a = A, b = B, c = C_, d = D; unsigned int u = U; int p[4];
      p[0] = P[0]; p[1] = P[1]; p[2] = P[2]; p[3] = P[3];
      out[0] = a && !b;
      out[1] = !a || b;
      out[2] = - (a - b);
      out[3] = -(a - b) - c;
      out[4] = a - (b - c);
      out[5] = a - (b + c);
      out[6] = a / (b * c);
      out[7] = a / (b / c);
      out[8] = a % (b % c);
      out[9] = a * (b / c);
      out[10] = (a * b) / c;
      out[11] = a - (b - (c - d));
      out[12] = ((a - b) - c) - d;
      out[13] = a << (b >> 1);
      out[14] = (a << b) >> 1;
      out[15] = a < b < c;
      out[16] = a < (b < c);
      out[17] = a == b == c;
      out[18] = a == (b == c);
      out[19] = a != b < c;
      out[20] = (a != b) < c;
      out[21] = a & b == c;
      out[22] = (a & b) == c;
      out[23] = a | b && c;
      out[24] = a | (b && c);
      out[25] = a ^ b & c | d;
      out[26] = a; out[27] = b; out[28] = c; out[29] = d; out[30] = p[0]; out[31] = p[1]; out[32] = p[2]; out[33] = p[3];
    }
  }
}

/* ---- translation emitted by occa for mode Serial (normalised lexically) ---- */



 void tr_e025(const int A, const int B, const int C_, const int D, const unsigned int U, const int * P, int * out) {
  for (int o = 0; o < 1; ++o) {
    for (int n = 0; n < 1; ++n) {
      int a = A, b = B, c = C_, d = D;
      unsigned int u = U;
      int p[4];
      p[0] = P[0];
      p[1] = P[1];
      p[2] = P[2];
      p[3] = P[3];
      out[0] = a && !b;
      out[1] = !a || b;
      out[2] = -(a - b);
      out[3] = -(a - b) - c;
      out[4] = a - (b - c);
      out[5] = a - (b + c);
      out[6] = a / (b * c);
      out[7] = a / (b / c);
      out[8] = a % (b % c);
      out[9] = a * (b / c);
      out[10] = (a * b) / c;
      out[11] = a - (b - (c - d));
      out[12] = ((a - b) - c) - d;
      out[13] = a << (b >> 1);
      out[14] = (a << b) >> 1;
      out[15] = a < b < c;
      out[16] = a < (b < c);
      out[17] = a == b == c;
      out[18] = a == (b == c);
      out[19] = a != b < c;
      out[20] = (a != b) < c;
      out[21] = a & b == c;
      out[22] = (a & b) == c;
      out[23] = a | b && c;
      out[24] = a | (b && c);
      out[25] = a ^ b & c | d;
      out[26] = a;
      out[27] = b;
      out[28] = c;
      out[29] = d;
      out[30] = p[0];
      out[31] = p[1];
      out[32] = p[2];
      out[33] = p[3];
    }
  }
}


int main(void) {
  IN(int, A);
  VASSUME(A >= 1 && A <= 12);
  IN(int, B);
  VASSUME(B >= 1 && B <= 12);
  IN(int, C_);
  VASSUME(C_ >= 1 && C_ <= 12);
  IN(int, D);
  VASSUME(D >= 1 && D <= 12);
  IN(unsigned int, U);
  VASSUME(U >= 1 && U <= 40);
  int P_ref[4], P_tr[4];
  { IN(int, P_0); P_ref[0] = P_0; P_tr[0] = P_0; VASSUME(P_0 >= -12 && P_0 <= 12); }
  { IN(int, P_1); P_ref[1] = P_1; P_tr[1] = P_1; VASSUME(P_1 >= -12 && P_1 <= 12); }
  { IN(int, P_2); P_ref[2] = P_2; P_tr[2] = P_2; VASSUME(P_2 >= -12 && P_2 <= 12); }
  { IN(int, P_3); P_ref[3] = P_3; P_tr[3] = P_3; VASSUME(P_3 >= -12 && P_3 <= 12); }
  int out_ref[34], out_tr[34];
  { IN(int, out_0); out_ref[0] = out_0; out_tr[0] = out_0; VASSUME(out_0 >= -12 && out_0 <= 12); }
  { IN(int, out_1); out_ref[1] = out_1; out_tr[1] = out_1; VASSUME(out_1 >= -12 && out_1 <= 12); }
  { IN(int, out_2); out_ref[2] = out_2; out_tr[2] = out_2; VASSUME(out_2 >= -12 && out_2 <= 12); }
  { IN(int, out_3); out_ref[3] = out_3; out_tr[3] = out_3; VASSUME(out_3 >= -12 && out_3 <= 12); }
  { IN(int, out_4); out_ref[4] = out_4; out_tr[4] = out_4; VASSUME(out_4 >= -12 && out_4 <= 12); }
  { IN(int, out_5); out_ref[5] = out_5; out_tr[5] = out_5; VASSUME(out_5 >= -12 && out_5 <= 12); }
  { IN(int, out_6); out_ref[6] = out_6; out_tr[6] = out_6; VASSUME(out_6 >= -12 && out_6 <= 12); }
  { IN(int, out_7); out_ref[7] = out_7; out_tr[7] = out_7; VASSUME(out_7 >= -12 && out_7 <= 12); }
  { IN(int, out_8); out_ref[8] = out_8; out_tr[8] = out_8; VASSUME(out_8 >= -12 && out_8 <= 12); }
  { IN(int, out_9); out_ref[9] = out_9; out_tr[9] = out_9; VASSUME(out_9 >= -12 && out_9 <= 12); }
  { IN(int, out_10); out_ref[10] = out_10; out_tr[10] = out_10; VASSUME(out_10 >= -12 && out_10 <= 12); }
  { IN(int, out_11); out_ref[11] = out_11; out_tr[11] = out_11; VASSUME(out_11 >= -12 && out_11 <= 12); }
  { IN(int, out_12); out_ref[12] = out_12; out_tr[12] = out_12; VASSUME(out_12 >= -12 && out_12 <= 12); }
  { IN(int, out_13); out_ref[13] = out_13; out_tr[13] = out_13; VASSUME(out_13 >= -12 && out_13 <= 12); }
  { IN(int, out_14); out_ref[14] = out_14; out_tr[14] = out_14; VASSUME(out_14 >= -12 && out_14 <= 12); }
  { IN(int, out_15); out_ref[15] = out_15; out_tr[15] = out_15; VASSUME(out_15 >= -12 && out_15 <= 12); }
  { IN(int, out_16); out_ref[16] = out_16; out_tr[16] = out_16; VASSUME(out_16 >= -12 && out_16 <= 12); }
  { IN(int, out_17); out_ref[17] = out_17; out_tr[17] = out_17; VASSUME(out_17 >= -12 && out_17 <= 12); }
  { IN(int, out_18); out_ref[18] = out_18; out_tr[18] = out_18; VASSUME(out_18 >= -12 && out_18 <= 12); }
  { IN(int, out_19); out_ref[19] = out_19; out_tr[19] = out_19; VASSUME(out_19 >= -12 && out_19 <= 12); }
  { IN(int, out_20); out_ref[20] = out_20; out_tr[20] = out_20; VASSUME(out_20 >= -12 && out_20 <= 12); }
  { IN(int, out_21); out_ref[21] = out_21; out_tr[21] = out_21; VASSUME(out_21 >= -12 && out_21 <= 12); }
  { IN(int, out_22); out_ref[22] = out_22; out_tr[22] = out_22; VASSUME(out_22 >= -12 && out_22 <= 12); }
  { IN(int, out_23); out_ref[23] = out_23; out_tr[23] = out_23; VASSUME(out_23 >= -12 && out_23 <= 12); }
  { IN(int, out_24); out_ref[24] = out_24; out_tr[24] = out_24; VASSUME(out_24 >= -12 && out_24 <= 12); }
  { IN(int, out_25); out_ref[25] = out_25; out_tr[25] = out_25; VASSUME(out_25 >= -12 && out_25 <= 12); }
  { IN(int, out_26); out_ref[26] = out_26; out_tr[26] = out_26; VASSUME(out_26 >= -12 && out_26 <= 12); }
  { IN(int, out_27); out_ref[27] = out_27; out_tr[27] = out_27; VASSUME(out_27 >= -12 && out_27 <= 12); }
  { IN(int, out_28); out_ref[28] = out_28; out_tr[28] = out_28; VASSUME(out_28 >= -12 && out_28 <= 12); }
  { IN(int, out_29); out_ref[29] = out_29; out_tr[29] = out_29; VASSUME(out_29 >= -12 && out_29 <= 12); }
  { IN(int, out_30); out_ref[30] = out_30; out_tr[30] = out_30; VASSUME(out_30 >= -12 && out_30 <= 12); }
  { IN(int, out_31); out_ref[31] = out_31; out_tr[31] = out_31; VASSUME(out_31 >= -12 && out_31 <= 12); }
  { IN(int, out_32); out_ref[32] = out_32; out_tr[32] = out_32; VASSUME(out_32 >= -12 && out_32 <= 12); }
  { IN(int, out_33); out_ref[33] = out_33; out_tr[33] = out_33; VASSUME(out_33 >= -12 && out_33 <= 12); }
  ref_e025(A, B, C_, D, U, P_ref, out_ref);
  tr_e025(A, B, C_, D, U, P_tr, out_tr);
  VASSERT(!launch_overflow, "a launch dimension exceeds the bound");
  OUTI(P_ref, 0, P_ref[0]); OUTI(P_tr, 0, P_tr[0]);
  VASSERT(P_ref[0] == P_tr[0], "P[0]: the translated kernel leaves what the sequential reading of the OKL kernel leaves");
  OUTI(P_ref, 1, P_ref[1]); OUTI(P_tr, 1, P_tr[1]);
  VASSERT(P_ref[1] == P_tr[1], "P[1]: the translated kernel leaves what the sequential reading of the OKL kernel leaves");
  OUTI(P_ref, 2, P_ref[2]); OUTI(P_tr, 2, P_tr[2]);
  VASSERT(P_ref[2] == P_tr[2], "P[2]: the translated kernel leaves what the sequential reading of the OKL kernel leaves");
  OUTI(P_ref, 3, P_ref[3]); OUTI(P_tr, 3, P_tr[3]);
  VASSERT(P_ref[3] == P_tr[3], "P[3]: the translated kernel leaves what the sequential reading of the OKL kernel leaves");
  OUTI(out_ref, 0, out_ref[0]); OUTI(out_tr, 0, out_tr[0]);
  VASSERT(out_ref[0] == out_tr[0], "out[0]: the translated kernel leaves what the sequential reading of the OKL kernel leaves");
  OUTI(out_ref, 1, out_ref[1]); OUTI(out_tr, 1, out_tr[1]);
  VASSERT(out_ref[1] == out_tr[1], "out[1]: the translated kernel leaves what the sequential reading of the OKL kernel leaves");
  OUTI(out_ref, 2, out_ref[2]); OUTI(out_tr, 2, out_tr[2]);
  VASSERT(out_ref[2] == out_tr[2], "out[2]: the translated kernel leaves what the sequential reading of the OKL kernel leaves");
  OUTI(out_ref, 3, out_ref[3]); OUTI(out_tr, 3, out_tr[3]);
  VASSERT(out_ref[3] == out_tr[3], "out[3]: the translated kernel leaves what the sequential reading of the OKL kernel leaves");
  OUTI(out_ref, 4, out_ref[4]); OUTI(out_tr, 4, out_tr[4]);
  VASSERT(out_ref[4] == out_tr[4], "out[4]: the translated kernel leaves what the sequential reading of the OKL kernel leaves");
  OUTI(out_ref, 5, out_ref[5]); OUTI(out_tr, 5, out_tr[5]);
  VASSERT(out_ref[5] == out_tr[5], "out[5]: the translated kernel leaves what the sequential reading of the OKL kernel leaves");
  OUTI(out_ref, 6, out_ref[6]); OUTI(out_tr, 6, out_tr[6]);
  VASSERT(out_ref[6] == out_tr[6], "out[6]: the translated kernel leaves what the sequential reading of the OKL kernel leaves");
  OUTI(out_ref, 7, out_ref[7]); OUTI(out_tr, 7, out_tr[7]);
  VASSERT(out_ref[7] == out_tr[7], "out[7]: the translated kernel leaves what the sequential reading of the OKL kernel leaves");
  OUTI(out_ref, 8, out_ref[8]); OUTI(out_tr, 8, out_tr[8]);
  VASSERT(out_ref[8] == out_tr[8], "out[8]: the translated kernel leaves what the sequential reading of the OKL kernel leaves");
  OUTI(out_ref, 9, out_ref[9]); OUTI(out_tr, 9, out_tr[9]);
  VASSERT(out_ref[9] == out_tr[9], "out[9]: the translated kernel leaves what the sequential reading of the OKL kernel leaves");
  OUTI(out_ref, 10, out_ref[10]); OUTI(out_tr, 10, out_tr[10]);
  VASSERT(out_ref[10] == out_tr[10], "out[10]: the translated kernel leaves what the sequential reading of the OKL kernel leaves");
  OUTI(out_ref, 11, out_ref[11]); OUTI(out_tr, 11, out_tr[11]);
  VASSERT(out_ref[11] == out_tr[11], "out[11]: the translated kernel leaves what the sequential reading of the OKL kernel leaves");
  OUTI(out_ref, 12, out_ref[12]); OUTI(out_tr, 12, out_tr[12]);
  VASSERT(out_ref[12] == out_tr[12], "out[12]: the translated kernel leaves what the sequential reading of the OKL kernel leaves");
  OUTI(out_ref, 13, out_ref[13]); OUTI(out_tr, 13, out_tr[13]);
  VASSERT(out_ref[13] == out_tr[13], "out[13]: the translated kernel leaves what the sequential reading of the OKL kernel leaves");
  OUTI(out_ref, 14, out_ref[14]); OUTI(out_tr, 14, out_tr[14]);
  VASSERT(out_ref[14] == out_tr[14], "out[14]: the translated kernel leaves what the sequential reading of the OKL kernel leaves");
  OUTI(out_ref, 15, out_ref[15]); OUTI(out_tr, 15, out_tr[15]);
  VASSERT(out_ref[15] == out_tr[15], "out[15]: the translated kernel leaves what the sequential reading of the OKL kernel leaves");
  OUTI(out_ref, 16, out_ref[16]); OUTI(out_tr, 16, out_tr[16]);
  VASSERT(out_ref[16] == out_tr[16], "out[16]: the translated kernel leaves what the sequential reading of the OKL kernel leaves");
  OUTI(out_ref, 17, out_ref[17]); OUTI(out_tr, 17, out_tr[17]);
  VASSERT(out_ref[17] == out_tr[17], "out[17]: the translated kernel leaves what the sequential reading of the OKL kernel leaves");
  OUTI(out_ref, 18, out_ref[18]); OUTI(out_tr, 18, out_tr[18]);
  VASSERT(out_ref[18] == out_tr[18], "out[18]: the translated kernel leaves what the sequential reading of the OKL kernel leaves");
  OUTI(out_ref, 19, out_ref[19]); OUTI(out_tr, 19, out_tr[19]);
  VASSERT(out_ref[19] == out_tr[19], "out[19]: the translated kernel leaves what the sequential reading of the OKL kernel leaves");
  OUTI(out_ref, 20, out_ref[20]); OUTI(out_tr, 20, out_tr[20]);
  VASSERT(out_ref[20] == out_tr[20], "out[20]: the translated kernel leaves what the sequential reading of the OKL kernel leaves");
  OUTI(out_ref, 21, out_ref[21]); OUTI(out_tr, 21, out_tr[21]);
  VASSERT(out_ref[21] == out_tr[21], "out[21]: the translated kernel leaves what the sequential reading of the OKL kernel leaves");
  OUTI(out_ref, 22, out_ref[22]); OUTI(out_tr, 22, out_tr[22]);
  VASSERT(out_ref[22] == out_tr[22], "out[22]: the translated kernel leaves what the sequential reading of the OKL kernel leaves");
  OUTI(out_ref, 23, out_ref[23]); OUTI(out_tr, 23, out_tr[23]);
  VASSERT(out_ref[23] == out_tr[23], "out[23]: the translated kernel leaves what the sequential reading of the OKL kernel leaves");
  OUTI(out_ref, 24, out_ref[24]); OUTI(out_tr, 24, out_tr[24]);
  VASSERT(out_ref[24] == out_tr[24], "out[24]: the translated kernel leaves what the sequential reading of the OKL kernel leaves");
  OUTI(out_ref, 25, out_ref[25]); OUTI(out_tr, 25, out_tr[25]);
  VASSERT(out_ref[25] == out_tr[25], "out[25]: the translated kernel leaves what the sequential reading of the OKL kernel leaves");
  OUTI(out_ref, 26, out_ref[26]); OUTI(out_tr, 26, out_tr[26]);
  VASSERT(out_ref[26] == out_tr[26], "out[26]: the translated kernel leaves what the sequential reading of the OKL kernel leaves");
  OUTI(out_ref, 27, out_ref[27]); OUTI(out_tr, 27, out_tr[27]);
  VASSERT(out_ref[27] == out_tr[27], "out[27]: the translated kernel leaves what the sequential reading of the OKL kernel leaves");
  OUTI(out_ref, 28, out_ref[28]); OUTI(out_tr, 28, out_tr[28]);
  VASSERT(out_ref[28] == out_tr[28], "out[28]: the translated kernel leaves what the sequential reading of the OKL kernel leaves");
  OUTI(out_ref, 29, out_ref[29]); OUTI(out_tr, 29, out_tr[29]);
  VASSERT(out_ref[29] == out_tr[29], "out[29]: the translated kernel leaves what the sequential reading of the OKL kernel leaves");
  OUTI(out_ref, 30, out_ref[30]); OUTI(out_tr, 30, out_tr[30]);
  VASSERT(out_ref[30] == out_tr[30], "out[30]: the translated kernel leaves what the sequential reading of the OKL kernel leaves");
  OUTI(out_ref, 31, out_ref[31]); OUTI(out_tr, 31, out_tr[31]);
  VASSERT(out_ref[31] == out_tr[31], "out[31]: the translated kernel leaves what the sequential reading of the OKL kernel leaves");
  OUTI(out_ref, 32, out_ref[32]); OUTI(out_tr, 32, out_tr[32]);
  VASSERT(out_ref[32] == out_tr[32], "out[32]: the translated kernel leaves what the sequential reading of the OKL kernel leaves");
  OUTI(out_ref, 33, out_ref[33]); OUTI(out_tr, 33, out_tr[33]);
  VASSERT(out_ref[33] == out_tr[33], "out[33]: the translated kernel leaves what the sequential reading of the OKL kernel leaves");
  VREACH();
  return 0;
}