#include <sstream>
#include <string>
extern "C" void verif_sstream_str_used();
namespace std {
  struct verif_sstream {
    template <class T> verif_sstream& operator<<(const T&) { return *this; }
    verif_sstream& operator<<(std::ostream& (*)(std::ostream&)) { return *this; }
    std::string str() const { verif_sstream_str_used(); return std::string(); }
    void str(const std::string&) {}
    int precision(int = 0) { return 0; }
    int width(int = 0) { return 0; }
    char fill(char = ' ') { return ' '; }
    void clear() {}
    bool fail() const { return false; }
    bool eof() const { return true; }
    template <class T> verif_sstream& operator>>(T&) { return *this; }
    void setf(int, int = 0) {}
    void unsetf(int) {}
  };
}
#define stringstream verif_sstream
