// C06 driver, linked against the libocca built from /repo with -DLIBOCCA_OCCA_VERIF.
//   driver <mode> key   <props.json> <source> [<props.json> <source> ...]   cache key of each configuration (no build)
//   driver <mode> keyfile <props.json> <source> ...                          as key, but the source hash is occa::hashFile(<source>), as device::buildKernel computes it
//   driver <mode> build <props.json> <source> [<props.json> <source> ...]   key, then build + run each configuration in order
//   driver <mode> buildfile <props.json> <source> ...                        as build, through device::buildKernel(<source file>)
// With OCCA_VERIF_HASHLOG set, the hook in src/utils/hash.cpp appends the hash trace; a line "M <n>" is appended by this
// driver before configuration n so that the trace can be split.
#include <occa.hpp>
#include <cstdio>
#include <cstdlib>
#include <cstring>
#include <fstream>
#include <sstream>

static std::string slurp(const char *p) { std::ifstream f(p); std::stringstream s; s << f.rdbuf(); return s.str(); }
static void mark(int n) {
  const char *path = getenv("OCCA_VERIF_HASHLOG");
  if (!path) return;
  FILE *f = fopen(path, "a"); if (!f) return;
  fprintf(f, "M %d\n", n); fclose(f);
}
static void printKey(const char *tag, int n, const occa::hash_t &h) {
  printf("%s %d ", tag, n);
  for (int i = 0; i < 8; ++i) printf("%08x", (unsigned int) h.h[i]);
  printf(" dir=%s\n", h.getString().c_str());
}

int main(int argc, char **argv) {
  if (argc >= 4 && !strcmp(argv[2], "hashfile")) {      // driver <mode> hashfile <file>...: occa::hashFile as the library prints it
    for (int a = 3; a < argc; ++a) printf("HASHFILE %s %s\n", argv[a], occa::hashFile(argv[a]).getFullString().c_str());
    return 0;
  }
  if (argc < 5) { fprintf(stderr, "usage: driver <mode> key|build (<props.json> <source>)+\n"); return 2; }
  const bool build = !strcmp(argv[2], "build");
  const bool buildFile = !strcmp(argv[2], "buildfile");      // device::buildKernel(<source file>): the file path API (used by C07)
  const bool fromFile = !strcmp(argv[2], "keyfile") || buildFile;
  occa::device dev(std::string("{mode: '") + argv[1] + "'}");
  printf("MODE %s\n", dev.mode().c_str());     // occa falls back to Serial when the requested mode is not compiled in
  for (int a = 3, n = 0; a + 1 < argc; a += 2, ++n) {
    const std::string src = slurp(argv[a + 1]);
    try {
      occa::json props = occa::json::parse(slurp(argv[a]));
      mark(n);
      occa::json kernelProps; occa::hash_t key;
      dev.setupKernelInfo(props, fromFile ? occa::hashFile(argv[a + 1]) : occa::hash(src), kernelProps, key);
      mark(-1);
      printKey("KEY", n, key);
      if (!build && !buildFile) continue;
      occa::kernel k = buildFile ? dev.buildKernel(argv[a + 1], "k", props) : dev.buildKernelFromString(src, "k", props);
      printKey("BUILT", n, k.hash());
      int out[4] = {0, 0, 0, 0};
      occa::memory m = dev.malloc<int>(4);
      k(m);
      dev.finish();
      m.copyTo(out);
      printf("RUN %d %d %d %d %d\n", n, out[0], out[1], out[2], out[3]);
    } catch (occa::exception &e) {
      printf("EXCEPTION %d %s\n", n, e.message.c_str());
    } catch (...) {
      printf("EXCEPTION %d unknown\n", n);
    }
    fflush(stdout);
  }
  return 0;
}
