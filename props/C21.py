"""C21 OpenMP kernels are deterministic for every thread count and schedule (E2).
Argument: (i) the OpenMP translation is the Serial translation plus `#pragma omp` lines (decided per program, text equality);
(ii) two-iteration non-interference of every `#pragma omp parallel for` loop, decided by CBMC with a symbolic watched
location: no location is touched by two different iterations unless every such access is atomic/critical.  (i)+(ii) => the
iterations commute, so every schedule and thread count gives the sequential (= Serial, C20) result; private variables are
the ones declared inside the loop body, which the instrumentation distinguishes from variables declared outside it."""
import os, re
from vlib import common as C, okl as O
from props import C20


def extra_kernels():
    P = []
    P.append(C20.K('histalias', '''
@kernel void histalias(const int N, const int off, const int *in, int *counts) {
  for (int o = 0; o < N; ++o; @outer) {
    int *bins = counts + off;
    for (int i = 0; i < 2; ++i; @inner) {
      const int k = in[o * 2 + i] & 1;
      @atomic bins[k] += 1;
    }
  }
}''', [('int', 'N', 0, 3), ('int', 'off', 0, 2)], [('int', 'in', 8, 'in'), ('int', 'counts', 4, 'inout')], feats='@atomic update through a pointer alias declared inside the @outer loop'))
    P.append(C20.K('atomicderef', '''
@kernel void atomicderef(const int N, const int *in, int *sum) {
  for (int o = 0; o < N; ++o; @outer) {
    for (int i = 0; i < 2; ++i; @inner) {
      @atomic *sum += in[o * 2 + i];
      @atomic sum[1]++;
    }
  }
}''', [('int', 'N', 0, 3)], [('int', 'in', 8, 'in'), ('int', 'sum', 2, 'inout')], feats='@atomic on *ptr and ptr[1]++'))
    P.append(C20.K('exclmulti', '''
@kernel void exclmulti(const int N, const int *in, int *out) {
  for (int b = 0; b < N; ++b; @outer) {
    @exclusive int e1;
    @exclusive int e2;
    @shared int s[2];
    for (int t = 0; t < 2; ++t; @inner) {
      e1 = in[b * 2 + t];
      e2 = t;
      s[t] = e1 + e2;
    }
    @barrier;
    for (int t = 0; t < 2; ++t; @inner) {
      out[b * 2 + t] = s[1 - t] + e1 - e2;
    }
  }
}''', [('int', 'N', 0, 3)], [('int', 'in', 8, 'in'), ('int', 'out', 8, 'out')], feats='two @exclusive variables and @shared inside the parallel loop'))
    P.append(C20.K('exclrt', '''
@kernel void exclrt(const int N, const int M, const int *in, int *out) {
  for (int o = 0; o < N; ++o; @outer) {
    @exclusive int staged;
    for (int i = 0; i < M; ++i; @inner) {
      staged = in[o * 2 + i];
    }
    for (int i = 0; i < M; ++i; @inner) {
      out[o * 2 + i] = 3 * staged + i;
    }
  }
}''', [('int', 'N', 0, 3), ('int', 'M', 0, 2)], [('int', 'in', 8, 'in'), ('int', 'out', 8, 'out')], feats='@exclusive with a run-time @inner bound (storage sized by the 1024 fallback)'))
    P.append(C20.K('twopar', '''
@kernel void twopar(const int N, const int *in, int *out) {
  for (int o = 0; o < N; ++o; @outer) {
    for (int i = 0; i < 2; ++i; @inner) {
      out[o * 2 + i] = in[o * 2 + i];
    }
  }
  for (int o = N - 1; o >= 0; --o; @outer) {
    for (int i = 0; i < 2; ++i; @inner) {
      out[o * 2 + i] += out[(N - 1 - o) * 2 + i] * 0 + 1;
    }
  }
}''', [('int', 'N', 0, 3)], [('int', 'in', 8, 'in'), ('int', 'out', 8, 'inout')], feats='two parallel regions; the second reads locations another iteration writes (expected to be rejected as interfering)', modes=['_expect_race']))
    return P


def pragma_free(txt):
    return '\n'.join(l for l in txt.split('\n') if not l.strip().startswith('#pragma omp'))


def run(ctx):
    thorough = ctx.tier == 'thorough'
    ctx.level = 'translation_validation'
    progs = [p for p in C20.corpus(ctx.tier) if p.name not in ('floatk',)] + extra_kernels()
    if ctx.only:
        progs = [p for p in progs if re.search(ctx.only, p.name)]
    O.occa_bin(ctx)
    qs = []; syn_bad = []; rejected = []; infos = {}
    for p in progs:
        d = os.path.dirname(ctx.path('prog', p.name, 'x'))
        op = os.path.join(d, p.name + '.okl')
        open(op, 'w').write(p.okl)
        ser, e1 = O.translate(ctx, op, 'Serial')
        omp, e2 = O.translate(ctx, op, 'OpenMP')
        if ser is None or omp is None:
            rejected.append({'program': p.name, 'message': (e1 or e2)[-300:]}); continue
        # (i) syntactic clause
        if pragma_free(omp) != pragma_free(ser) or '#pragma' in pragma_free(ser):
            syn_bad.append(p.name)
        # every outermost @outer loop must carry the parallel pragma (otherwise the check below would be vacuous for it)
        n_outer = len(re.findall(r'\n  for \(', '\n' + pragma_free(omp)))
        try:
            tr, info = O.race_instrument(omp)
        except O.Unsupported as ex:
            ctx.inconclusive.append('%s: %s' % (p.name, ex)); continue
        infos[p.name] = dict(info, outer_loops_at_kernel_level=n_outer)
        hp = os.path.join(d, '%s_race.c' % p.name)
        open(hp, 'w').write(O.race_harness(p, 'OpenMP', tr))
        expect_race = p.only_modes == ['_expect_race']
        q = C.Query('%s/race' % p.name, None, hp, unwind=p.unwind or 10, timeout=1200 if thorough else 600, desc=p.feats, backend='cadical',
                    expect='fail' if expect_race else 'pass')
        q.cfiles = [hp]; q.meta = {'program': p.name, 'mode': 'OpenMP', 'prog': O.prog_to_meta(p), 'race': True}
        q.known = 'self-test: the race detector flags a kernel whose outer iterations interfere (twopar)'
        q.witness_vectors = [dict(N=2, W=2, H=2, M=2, s=1, m=1, flag=1, off=1, watch_arr=0, watch_idx=0), dict(N=0, W=0, H=0, M=0, watch_arr=0, watch_idx=0), dict(N=1, W=1, H=1, M=1, off=0, watch_arr=1, watch_idx=1)]
        q.selftest_only = expect_race
        qs.append(q)
    C.run_queries(ctx, qs)
    # the self-test kernel is not a known finding of occa: move it from 'known' to a note; if the detector misses it the check is unsound
    st = [k for k in ctx.known if k and k.startswith('self-test')]
    ctx.known = [k for k in ctx.known if not (k and k.startswith('self-test'))]
    if any(getattr(q, 'selftest_only', False) for q in qs) and not st:
        ctx.inconclusive.append('race detector self-test failed: the interfering kernel twopar was not flagged')
    ctx.notes = [n for n in ctx.notes if 'self-test' not in n]
    slot = 500
    for name in syn_bad:
        slot += 1
        d = os.path.join(C.REPLAY_DIR, 'C21_%d' % slot); os.makedirs(d, exist_ok=True)
        import json
        pr = [p for p in progs if p.name == name][0]
        open(os.path.join(d, 'README.txt'), 'w').write('the OpenMP translation of %s differs from the Serial translation in more than `#pragma omp` lines\n' % name)
        json.dump({'kind': 'e2', 'property': 'C21', 'program': name, 'mode': 'OpenMP', 'prog': O.prog_to_meta(pr), 'syntactic': True}, open(os.path.join(d, 'meta.json'), 'w'), indent=1)
        open(os.path.join(d, 'values.txt'), 'w').write('')
        ctx.violations.append(('%s: OpenMP translation differs from the Serial translation beyond pragmas' % name, d))
    for name, inf in infos.items():
        if inf['parallel_loops'] == 0:
            ctx.notes.append('%s: no `#pragma omp parallel for` emitted (kernel runs sequentially under OpenMP; deterministic but not parallel)' % name)
    ctx.extra['programs'] = len(progs)
    ctx.extra['programs_rejected_by_occa'] = rejected
    ctx.extra['disagreements_checked'] = sum(1 for r in ctx.queries if r.get('status') == 'fail')
    ctx.extra['instrumentation'] = infos
    ctx.extra['syntactic_clause'] = {'checked': len(infos), 'differences': syn_bad}
    ctx.samples = [{'program': p.okl, 'desc': p.feats} for p in progs[-4:-2]]
    ctx.bounds = {'kernels': '%d: the C20 corpus plus %s' % (len(progs), ', '.join(p.name for p in extra_kernels())),
                  'run-time values': 'array contents and scalar arguments symbolic in the C20 ranges; at most 6 iterations per parallel loop',
                  'locations': 'every element of every array argument and every variable declared in the kernel function outside the parallel loop (symbolic watched location)',
                  'outside': 'the OpenMP runtime itself; non-commutative updates inside atomic/critical sections; kernels outside the corpus; floating-point atomic ordering'}
    ctx.assumptions += ['data-race freedom + identical text imply schedule independence (iterations commute); atomic/critical sections are assumed to hold commutative updates',
                        'accesses are recognised lexically: subscripts and dereferences of non-const pointer parameters, of pointer variables declared in the kernel, and of variables declared in the kernel function outside the parallel loop; const-qualified pointer parameters are read-only',
                        'any access through a non-const pointer counts as a write (conservative)']
    return C.finish(ctx)


def replay_query(ctx, meta):
    p = O.prog_from_meta(meta['prog'])
    O.occa_bin(ctx)
    d = os.path.dirname(ctx.path('prog', p.name, 'x'))
    op = os.path.join(d, p.name + '.okl'); open(op, 'w').write(p.okl)
    ser, _ = O.translate(ctx, op, 'Serial'); omp, _ = O.translate(ctx, op, 'OpenMP')
    if omp is None:
        raise C.Inconclusive('program no longer accepted')
    tr, info = O.race_instrument(omp)
    hp = os.path.join(d, '%s_race.c' % p.name); open(hp, 'w').write(O.race_harness(p, 'OpenMP', tr))
    q = C.Query('%s/race' % p.name, None, hp); q.cfiles = [hp]; q.prog = p
    if meta.get('syntactic'):
        q.force_fail = pragma_free(omp) != pragma_free(ser or '')
        if not q.force_fail:
            q.cfiles = [hp]
    return q
