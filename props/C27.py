"""C27 hash_t strings are faithful and hashing has no undefined behaviour (E1: lift + CBMC)"""
import os
from vlib import common as C
from vlib.common import Query

H = os.path.join(C.VERIF, 'harness', 'C27')
ROOTS = ['v_roundtrip', 'v_short', 'v_hash', 'v_ops']

def run(ctx):
    thorough = ctx.tier == 'thorough'
    L = C.lift(ctx, 'C27', os.path.join(H, 'wrap.cpp'), ROOTS, ub=True)
    known = dict(C.load_known('C27'))
    qs = []
    qs.append(Query('roundtrip', L, os.path.join(H, 'h_roundtrip.c'), unwind=70, timeout=900,
                    desc='fromString(getFullString(h))==h, all 2^256 values'))
    qs.append(Query('ops', L, os.path.join(H, 'h_ops.c'), unwind=10, timeout=900, desc='==,!=,<,^ on all pairs of hashes'))
    modes = range(10) if thorough else (0, 1, 2, 3, 4, 6, 7, 8)
    for m in modes:
        d = ['MODE=%d' % m]
        if 'zero-short' in known:
            qs.append(Query('short-m%d' % m, L, os.path.join(H, 'h_short.c'), d + ['EXCLUDE_ZERO_CACHE'], unwind=70, timeout=1200,
                            desc='getString is the 16-char prefix of getFullString, object history %d, known finding excluded' % m))
        else:
            qs.append(Query('short-m%d' % m, L, os.path.join(H, 'h_short.c'), d, unwind=70, timeout=1200,
                            desc='getString is the 16-char prefix of getFullString, object history %d' % m))
    if 'zero-short' in known:
        qs.append(Query('short-known', L, os.path.join(H, 'h_short.c'), ['MODE=0'], unwind=70, timeout=1200, expect='fail',
                        known='key=zero-short ' + known['zero-short'], desc='re-confirm listed finding'))
    nb = 8 if thorough else 4
    if 'hash-signed-overflow' in known:
        qs.append(Query('hash-ub-known', L, os.path.join(H, 'h_hash.c'), ['NB=%d' % nb], unwind=10, timeout=900, expect='fail',
                        known='key=hash-signed-overflow ' + known['hash-signed-overflow'], desc='re-confirm listed finding'))
    else:
        qs.append(Query('hash-ub', L, os.path.join(H, 'h_hash.c'), ['NB=%d' % nb], unwind=10, timeout=900,
                        desc='hash(bytes): no UB (signed overflow, shifts, bounds), all byte strings of length <= %d' % nb))
    qs.append(Query('hash-det', L, os.path.join(H, 'h_hash.c'), ['NB=2', 'DET'], unwind=10, timeout=900,
                    desc='hash(bytes) is a function of the bytes: two calls on equal contents at different addresses agree, length <= 2'))
    if ctx.only:
        import re
        qs = [q for q in qs if re.search(ctx.only, q.name)]
    # translator validation on concrete vectors (values used by tests/src/internal/utils? hash has no unit test: use fixed vectors)
    vec = [{'h': [0, 1, 2, 3, 4, 5, 6, 7]}, {'h': [0x7fffffff, -1, 101527, 0, 5, -7, 0x12345678, 0xabcdef]}, {'h': [0] * 8}]
    C.selftest(ctx, L, os.path.join(H, 'h_roundtrip.c'), [], vec, 'rt')
    C.selftest(ctx, L, os.path.join(H, 'h_short.c'), ['MODE=1'], [dict(v, g=[3] * 8) for v in vec[:2]], 'sh')
    C.selftest(ctx, L, os.path.join(H, 'h_hash.c'), ['NB=4'], [{'buf': [1, 2, 3, 4], 'n': 2}, {'buf': [97, 98, 0, 255], 'n': 2}, {'buf': [0] * 4, 'n': 0}], 'hs')
    C.run_queries(ctx, qs)
    ctx.bounds = {'hash words': 'all 2^256 values (8 x 32-bit symbolic)', 'hex codec loops': 'unwind 70 (64 chars + slack), unwinding assertions on',
                  'hashed byte strings': 'length <= %d, arbitrary bytes' % nb, 'outside': 'byte strings longer than the bound; hash_t::random(); hashFile (I/O)'}
    ctx.assumptions += ['operator new never fails (allocation failure out of scope)',
                        'std::stringstream replaced by an empty stub (prelude.hpp): the stray `std::stringstream ss;` in occa::hash has no effect on the result',
                        'libstdc++ std::string code is the real header code compiled into the IR (-D_GLIBCXX_ASSERTIONS)']
    return C.finish(ctx)


def relift(ctx):
    return C.lift(ctx, 'C27', os.path.join(H, 'wrap.cpp'), ROOTS, ub=True)
