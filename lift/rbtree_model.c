/* C model of libstdc++'s four non-template red-black-tree functions as a plain (unbalanced) binary
 * search tree.  Clients of std::map/std::set observe in-order iteration, find, insert, erase: balance
 * is not observable.  Exactly the root is black (the header is red), which is what
 * _Rb_tree_decrement uses to recognise the header. */
#include <stddef.h>
struct rbn { unsigned int color; struct rbn *parent, *left, *right; };
#define RED 0u
#define BLACK 1u
char* _ZSt18_Rb_tree_incrementPSt18_Rb_tree_node_base(char *p) {
  struct rbn *x = (struct rbn*) p;
  if (x->right) { x = x->right; while (x->left) x = x->left; }
  else { struct rbn *y = x->parent; while (x == y->right) { x = y; y = y->parent; } if (x->right != y) x = y; }
  return (char*) x;
}
char* _ZSt18_Rb_tree_incrementPKSt18_Rb_tree_node_base(char *p) { return _ZSt18_Rb_tree_incrementPSt18_Rb_tree_node_base(p); }
char* _ZSt18_Rb_tree_decrementPSt18_Rb_tree_node_base(char *p) {
  struct rbn *x = (struct rbn*) p;
  if (x->color == RED && x->parent && x->parent->parent == x) x = x->right;
  else if (x->left) { struct rbn *y = x->left; while (y->right) y = y->right; x = y; }
  else { struct rbn *y = x->parent; while (x == y->left) { x = y; y = y->parent; } x = y; }
  return (char*) x;
}
char* _ZSt18_Rb_tree_decrementPKSt18_Rb_tree_node_base(char *p) { return _ZSt18_Rb_tree_decrementPSt18_Rb_tree_node_base(p); }
void _ZSt29_Rb_tree_insert_and_rebalancebPSt18_Rb_tree_node_baseS0_RS_(_Bool insert_left, char *xp, char *pp, char *hp) {
  struct rbn *x = (struct rbn*) xp, *p = (struct rbn*) pp, *h = (struct rbn*) hp;
  x->parent = p; x->left = 0; x->right = 0; x->color = RED;
  if (insert_left) {
    p->left = x;
    if (p == h) { h->parent = x; h->right = x; x->color = BLACK; }
    else if (p == h->left) h->left = x;
  } else {
    p->right = x;
    if (p == h->right) h->right = x;
  }
}
char* _ZSt28_Rb_tree_rebalance_for_erasePSt18_Rb_tree_node_baseRS_(char *zp, char *hp) {
  struct rbn *z = (struct rbn*) zp, *h = (struct rbn*) hp;
  struct rbn *y = z, *x = 0;
  if (y->left == 0) x = y->right;
  else if (y->right == 0) x = y->left;
  else { y = y->right; while (y->left) y = y->left; x = y->right; }
  if (y != z) {
    z->left->parent = y; y->left = z->left;
    if (y != z->right) {
      if (x) x->parent = y->parent;
      y->parent->left = x;
      y->right = z->right; z->right->parent = y;
    }
    if (h->parent == z) h->parent = y;
    else if (z->parent->left == z) z->parent->left = y;
    else z->parent->right = y;
    y->parent = z->parent;
    { unsigned int c = y->color; y->color = z->color; z->color = c; }
    y = z;
  } else {
    if (x) x->parent = y->parent;
    if (h->parent == z) h->parent = x;
    else if (z->parent->left == z) z->parent->left = x;
    else z->parent->right = x;
    if (h->left == z) {
      if (z->right == 0) h->left = z->parent;
      else { struct rbn *m = x; while (m->left) m = m->left; h->left = m; }
    }
    if (h->right == z) {
      if (z->left == 0) h->right = z->parent;
      else { struct rbn *m = x; while (m->right) m = m->right; h->right = m; }
    }
  }
  if (h->parent) h->parent->color = BLACK;
  return (char*) y;
}
