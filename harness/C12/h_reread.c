/* A string/char literal read by the tokenizer is printed so that the tokenizer reads the same value again.
 *   raw   = literal body in the source (symbolic bytes, well formed: no newline, every quote escaped, no dangling backslash)
 *   value = unescape(raw, q)            (what the token stores)
 *   text  = escape(value, q)            (what the token prints between the quotes)
 * Obligations: the tokenizer's end-of-literal search on text + q stops exactly at that closing quote, and
 * unescape(text, q) == value.  q in {", '}. */
#include "vharness.h"
#include "C12_roots.h"
#ifndef NB
#define NB 4
#endif
int main(void) {
  IN_ARR(char, raw, NB);
#ifdef NFIX
  int n = NFIX, qsel = QSEL;     /* concrete length and quote (the driver enumerates them): symbolic lengths make std::string construction explode */
#else
  IN(int, n); IN(int, qsel);
#endif
  VASSUME(n >= 0 && n <= NB);
  char q = qsel ? '"' : '\'';
  /* well-formed literal body */
  int esc = 0;
  for (int i = 0; i < NB; i++) if (i < n) {
    VASSUME(raw[i] != 0 && raw[i] != '\n');
    if (esc) { esc = 0; }
    else { VASSUME(raw[i] != q); if (raw[i] == '\\') esc = 1; }
  }
  VASSUME(!esc);
  char value[16], text[16], again[16]; int vn = -1, tn = -1, an = -1;
  for (int i = 0; i < 16; i++) { value[i] = 0; text[i] = 0; again[i] = 0; }
  VASSERT(l_unescape(raw, n, q, value, (char *) &vn) == 0, "unescape does not throw");
  VASSERT(vn >= 0 && vn <= n, "value is not longer than the source text");
  VASSERT(l_escape(value, vn, q, text, (char *) &tn) == 0, "escape does not throw");
  VASSERT(tn >= 0 && tn <= 2 * NB, "printed text fits");
  char buf[2 * NB + 2];
  for (int i = 0; i < 2 * NB + 2; i++) buf[i] = 0;
  for (int i = 0; i < 2 * NB; i++) if (i < tn) buf[i] = text[i];
  if (tn >= 0 && tn <= 2 * NB) buf[tn] = q;
  int stop = l_skipto(buf, q);
  OUT(vn, vn); OUT(tn, tn); OUT(stop, stop);
  VASSERT(stop == tn, "the closing quote of the printed literal is where the tokenizer ends the literal");
  VASSERT(l_unescape(text, tn, q, again, (char *) &an) == 0, "unescape does not throw");
  VASSERT(an == vn, "re-read value has the same length");
  for (int i = 0; i < NB; i++) if (i < vn) VASSERT(again[i] == value[i], "re-read value has the same bytes");
  VREACH();
  return 0;
}
