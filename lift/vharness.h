/* Shared harness macros.  One harness source serves three builds:
 *   - CBMC            (__CPROVER__ defined): inputs are nondet, VASSERT is a proof obligation
 *   - native replay   (VNATIVE): inputs come from a values file extracted from a CBMC
 *                     trace (or a self-test vector); the same assertions run against the
 *                     g++ build of the real occa functions (or a gcc build of the lifted C)
 */
#ifndef VHARNESS_H
#define VHARNESS_H
#include <stddef.h>

#ifdef VNATIVE
#include <stdio.h>
#include <stdlib.h>
unsigned long vreplay_get(const char *name, long idx);
extern int vfail_count;
void vout(const char *name, long idx, unsigned long v);
#define VASSERT(c, msg) do { if (!(c)) { printf("ASSERT-FAIL: %s\n", msg); fflush(stdout); vfail_count++; } } while (0)
/* an assertion that failed BEFORE the path is cut stays failed (as under CBMC): exit 10, not 3 */
#define VASSUME(c) do { if (!(c)) { printf("ASSUME-FALSE: %s\n", #c); fflush(stdout); exit(vfail_count ? 10 : 3); } } while (0)
#define IN(type, name) type name = (type) vreplay_get(#name, -1)
#define IN_ARR(type, name, n) type name[n]; for (long _i = 0; _i < (long)(n); _i++) name[_i] = (type) vreplay_get(#name, _i)
double vreplay_getf(const char *name);
#define IN_F64(name) double name = vreplay_getf(#name)
#define IN_F32(name) float name = (float) vreplay_getf(#name)
#define OUT(name, v) vout(#name, -1, (unsigned long)(v))
#define OUTI(name, i, v) vout(#name, (i), (unsigned long)(v))
#define VREACH() do { printf("REACHED-END\n"); } while (0)
#undef __CPROVER_assume
#define __CPROVER_assume(c) VASSUME(c)
#define main vharness_main
#define __CPROVER_overflow_plus(a, b) __builtin_add_overflow_p(a, b, (__typeof__((a) + (b))) 0)
#define __CPROVER_overflow_minus(a, b) __builtin_sub_overflow_p(a, b, (__typeof__((a) - (b))) 0)
#define __CPROVER_overflow_mult(a, b) __builtin_mul_overflow_p(a, b, (__typeof__((a) * (b))) 0)
#else
unsigned long nondet_ulong(void); double nondet_double(void); float nondet_float(void);
#define VASSERT(c, msg) __CPROVER_assert((c), "VASSERT: " msg)
#define VASSUME(c) __CPROVER_assume(c)
/* every symbolic input is first stored in a named variable so that the trace names it */
#define IN(type, name) type name = (type) nondet_ulong()
#define IN_ARR(type, name, n) type name[n]; for (long _i = 0; _i < (long)(n); _i++) name[_i] = (type) nondet_ulong()
#define IN_F64(name) double name = nondet_double()
#define IN_F32(name) float name = nondet_float()
#define OUT(name, v) ((void)0)
#define OUTI(name, i, v) ((void)0)
#ifdef WITNESS
#define VREACH() __CPROVER_assert(0, "WITNESS: end of harness reachable")
#else
#define VREACH() ((void)0)
#endif
#endif

#endif
