#!/usr/bin/env python3-vt
import json, jsonschema, glob, sys
m = json.load(open('/verif/MANIFEST.json'))
jsonschema.validate(m, json.load(open('/root/.vp/MANIFEST.schema.json')))
ids = [json.loads(l)['id'] for l in open('/verif/properties.jsonl')]
cl = [c['property_id'] for c in m['checks']]; na = [n['property_id'] for n in m.get('not_applicable', [])]
assert sorted(cl + na) == sorted(ids), (set(ids) - set(cl + na), set(cl) & set(na))
es = json.load(open('/root/.vp/EVIDENCE.schema.json'))
for c in m['checks']:
    f = '/verif/' + c['evidence_file']
    try:
        ev = json.load(open(f)); jsonschema.validate(ev, es)
        assert ev['level'] == c['level_claimed']['category'], (f, ev['level'])
        print('ok', f, ev['tier'], ev.get('violations'), ev['wall_s'])
    except Exception as e:
        print('BAD', f, str(e)[:200])
print('manifest ok: claimed', cl)
