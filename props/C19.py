"""C19 @dim array access computes the documented linear index (E2: emitted code -> CBMC).
The array passed to the kernel is the identity table (x[k] == k), so the value read through the rewritten
subscript IS the linear index occa computed; CBMC's bounds check covers 'stays inside [0, prod D)'."""
import os, re, itertools
from vlib import common as C, okl as O

SZ = 256
IDARR = 'static int idarr[%d] = {%s};\n' % (SZ, ', '.join(str(i) for i in range(SZ)))
DMAX = 4
# index-argument expression classes (every C operator class that can appear in a call argument)
IDX = ['{i}', '{i} + 1', '{i} - {j}', '{i} | 1', '{i} & m', '{i} ^ {j}', 'c ? {i} : {j}', '{i} << 1', '{i} >> 1', '-{i}', '{i} == {j}', '{i} < {j}', '{i} * 2', '{i} % 3',
       '{i} && {j}', '{i} || c', '!{i}', '~{i} & 3', '(int) {i}', '{i} / 2']
DIMS = ['D{k}', '{lit}', 'D{k} + 1', 'D{k} | 1', 'c ? D{k} : 2']


def ref_formula(args, dims, order):
    """documented mixed-radix index, every argument fully parenthesised; order lists dimensions fastest first"""
    n = len(args)
    idx = '(%s)' % args[order[n - 1]]
    for k in range(n - 2, -1, -1):
        o = order[k]
        idx = '((%s) + ((%s) * %s))' % (args[o], dims[o], idx)
    return idx


def make(name, arity, order, argexprs, dimexprs, typedef, tier, bij=False):
    iv = ['i%d' % k for k in range(arity)]; jv = ['j%d' % k for k in range(arity)]
    scal = ['const int %s' % v for v in iv + jv] + ['const int D%d' % k for k in range(arity)] + ['const int c', 'const int m']
    dimattr = '@dim(%s)' % ', '.join(dimexprs)
    ordattr = '' if order == list(range(arity)) else ' @dimOrder(%s)' % ', '.join(str(o) for o in order)
    if typedef:
        pre = 'typedef int* tab_t %s;\n' % dimattr
        xdecl = 'tab_t x%s' % ordattr
    else:
        pre = ''
        xdecl = 'int *x %s%s' % (dimattr, ordattr)
    sig = ', '.join(scal + ['int *out', xdecl])
    call1 = 'x(%s)' % ', '.join(argexprs)
    call2 = 'x(%s)' % ', '.join(jv)
    body = '  for (int o = 0; o < 1; ++o; @outer) {\n    for (int n = 0; n < 1; ++n; @inner) {\n      rec3(out, %s, %s, 0);\n    }\n  }\n'
    okl = pre + '@kernel void %s(%s) {\n%s}\n' % (name, sig, body % (call1, call2))
    refsig = sig.replace(xdecl, 'int *x')
    ref = 'void %s(%s) {\n  rec3(out, %s, %s, 0);\n}\n' % (name, refsig, ref_formula(argexprs, dimexprs, order), ref_formula(jv, dimexprs, order))
    lo = 0 if any(('<<' in e or '>>' in e) for e in argexprs) else -8      # shifting a negative value is undefined in the source program itself
    args = [('int', v, lo, 8) for v in iv] + [('int', v, 0, DMAX - 1) for v in jv] + [('int', 'D%d' % k, 1, DMAX) for k in range(arity)] + [('int', 'c', -2, 2), ('int', 'm', 0, 7)] \
        + [('int *', 'out', None, None), ('int *', 'x', 'idarr', None)]
    assumes = []
    for k in range(arity):
        assumes.append('(%s) >= 1 && (%s) <= %d' % (dimexprs[k], dimexprs[k], DMAX))
        assumes.append('(%s) >= 0 && (%s) < (%s)' % (argexprs[k], argexprs[k], dimexprs[k]))
        assumes.append('j%d < (%s)' % (k, dimexprs[k]))
    p = O.Prog(name, okl, name, args, refcap=1, cap=2, unwind=4, assumes=assumes, ref=ref,
               desc='%s%s access x(%s): every index in range, dimensions in 1..%d' % (dimattr, ordattr, ', '.join(argexprs), DMAX))
    p.globals = IDARR
    prod = ' * '.join('(%s)' % d for d in dimexprs)
    p.post_asserts = ['VASSERT(lastv[1][0] >= 0 && lastv[1][0] < %s, "in-range indices map into [0, D0*...*Dk)");' % prod]
    if bij:
        same = ' && '.join('(%s) == %s' % (argexprs[k], jv[k]) for k in range(arity))
        p.post_asserts.append('VASSERT((lastv[1][0] == lastv[1][1]) == (%s), "the rewritten index is injective on in-range index tuples");' % same)
    return p


def programs(tier, seed):
    progs = []; n = 0
    lits = ['2', '3', '4', '2']
    # (1) all arities and @dimOrder permutations, plain indices: formula + bijection
    for arity in (1, 2, 3, 4):
        for order in itertools.permutations(range(arity)):
            if tier != 'thorough' and arity == 4 and (sum(o * (k + 1) for k, o in enumerate(order)) + seed) % 4:
                continue
            dims = ['D%d' % k for k in range(arity)]
            progs.append(make('d%03d' % n, arity, list(order), ['i%d' % k for k in range(arity)], dims, typedef=(n % 2 == 1), tier=tier, bij=True)); n += 1
    # (2) operator classes in each argument position (arity 2 and 3), dimension expression classes rotating
    k = seed
    for e in IDX:
        for arity in (2, 3):
            for role in range(arity):
                k += 1
                perms = list(itertools.permutations(range(arity)))
                order = list(perms[k % len(perms)])
                # role of the argument under test in the documented formula: 0 = fastest (left operand of +), arity-1 = slowest (right
                # operand of the generated *), in between = inside a parenthesised sum.  quick: every operator class in every role at
                # arity 3 and in the slowest role at arity 2 (the roles differ in which generated operator the argument sits under)
                pos = order[role]
                if tier != 'thorough' and not (arity == 3 or role == arity - 1):
                    continue
                argexprs = []
                for q in range(arity):
                    if q == pos:
                        argexprs.append(e.format(i='i%d' % q, j='i%d' % ((q + 1) % arity)))
                    else:
                        argexprs.append(IDX[(k + q) % 4].format(i='i%d' % q, j='i%d' % ((q + 1) % arity)))
                dims = [DIMS[(k + q) % len(DIMS)].format(k=q, lit=lits[q]) for q in range(arity)]
                progs.append(make('d%03d' % n, arity, order, argexprs, dims, typedef=(k % 3 == 0), tier=tier)); n += 1
    return progs


def run(ctx):
    thorough = ctx.tier == 'thorough'
    ctx.level = 'translation_validation'
    progs = programs(ctx.tier, ctx.seed)
    if ctx.only:
        progs = [p for p in progs if re.search(ctx.only, p.name)]
    known = dict(C.load_known('C19'))
    def modes_of(p, cnt=[0]):
        if thorough:
            return ['Serial', 'OpenMP', 'CUDA', 'OpenCL', 'dpcpp', 'Metal', 'HIP']
        cnt[0] += 1
        return ['Serial', O.LAUNCH_MODES[cnt[0] % 5]] if cnt[0] % 3 == 0 else [('Serial', 'OpenMP')[cnt[0] % 2]] if cnt[0] % 3 == 1 else [O.LAUNCH_MODES[cnt[0] % 5]]
    wv = []
    for base in (0, 1):
        v = {'c': 1, 'm': 1}
        for k in range(4):
            v['i%d' % k] = base; v['j%d' % k] = base; v['D%d' % k] = 3
        wv.append(v)
    wv.append(dict(wv[0], c=0, m=3, i0=1, i1=0, i2=1, i3=0, D0=2, D1=2, D2=4, D3=2))
    wv.append(dict(wv[0], c=2, m=0, i0=0, i1=2, i2=0, i3=1, D0=4, D1=4, D2=4, D3=4))
    wv.append(dict(wv[0], c=1, m=1, i0=2, i1=1, i2=2, i3=1, D0=3, D1=3, D2=3, D3=3))
    qs, rejected = O.make_queries(ctx, progs, O.MODES, O.visit_harness, known_keys=list(known), timeout=900, witness_vectors=wv, modes_of=modes_of)
    C.run_queries(ctx, qs)
    ctx.extra['programs'] = len(progs)
    ctx.extra['programs_rejected_by_occa'] = rejected[:40]
    ctx.extra['programs_rejected_count'] = len(rejected)
    ctx.extra['disagreements_checked'] = sum(1 for r in ctx.queries if r.get('status') == 'fail')
    ctx.samples = [{'program': p.okl, 'reference': p.ref, 'desc': p.desc} for p in progs[:2] + progs[-3:]]
    ctx.bounds = {'programs': '%d: arities 1-4 with %s @dimOrder permutations (plain indices, formula + bijection), and index expressions %s in every argument position of arity 2 and 3 with dimension expressions %s; @dim on the variable and on a typedef' % (len(progs), 'all' if thorough else 'all (arity<=3) / a quarter (arity 4) of the', IDX, DIMS),
                  'run-time values': 'dimensions 1..%d, index variables in [-8,8] subject to every index expression being in range, c in [-2,2], m in [0,7]' % DMAX,
                  'outside': 'dimensions above %d, arity above 4, out-of-range indices, comma expressions as arguments' % DMAX}
    ctx.assumptions += ['documented formula: x(a0..ak) with order o (fastest first) -> a[o0] + D[o0]*(a[o1] + D[o1]*(...)), each a and D a complete expression (docs/guide/okl/attributes.md)',
                        'the array argument is the identity table, so the value read is the emitted subscript; CBMC bounds checks cover out-of-range subscripts']
    if len(rejected) > len(qs) // 2:
        ctx.inconclusive.append('occa rejected most generated programs (%d): generator or translator broken' % len(rejected))
    return C.finish(ctx)


def replay_query(ctx, meta):
    return O.replay_query(ctx, meta, 'C19')
