"""C17 every backend visits exactly the iterations of each OKL loop (E2: emitted code -> CBMC).
The solver quantifies over all run-time operand values; the generator enumerates loop headers."""
import os, re, itertools, random
from vlib import common as C, okl as O

R = 1 << 14          # |scalar arguments| <= R so that the *sequential* loop cannot overflow
def ARGS(tier):
    return [('int', 'N', -R, R), ('int', 'a', -R, R), ('int', 'b', -R, R), ('int', 'c', -R, R), ('int', 's', 1, SMAX[tier]), ('int *', 'out', None, None)]
SMAX = {'quick': 8, 'thorough': 1 << 10}
SIG = 'const int N, const int a, const int b, const int c, const int s, int *out'

# operand expression shapes, one per C precedence class that may legally appear in a header
EXPRS = ['0', '3', 'N', 'a + b', 'a - b', 'N >> 1', 'a * 2', 'a & b', 'a | 1', 'c ? a : b', '-a', 'a % 4', '(a < b)', 'N - 1', 'a ^ b', '(b & 15) << 1']
STEPS_POS = ['++{i}', '{i}++', '{i} += 2', '{i} += 3', '{i} += s', '{i} += s + 1']
STEPS_NEG = ['--{i}', '{i}--', '{i} -= 2', '{i} -= 3', '{i} -= s', '{i} -= s + 1']
TYPES = ['int', 'long', 'unsigned int']


def header(T, it, init, cmp_, side, bound, step):
    chk = '%s %s %s' % (it, cmp_, bound) if side == 'L' else '%s %s %s' % (bound, cmp_, it)
    return 'for (%s %s = %s; %s; %s; @ROLE)' % (T, it, init, chk, step.format(i=it))


def direction_ok(cmp_, side, pos):
    up = (cmp_ in ('<', '<=')) == (side == 'L')     # iterator grows towards the bound
    return up == pos


def known_excl(init, bound, cmp_, side, pos):
    """C predicate: the loop is empty at run time and the emitted count expression is negative (see known_findings.txt)"""
    I = '((long)(%s))' % init; B = '((long)(%s))' % bound
    incl = cmp_ in ('<=', '>=')
    if pos:
        return '%s > %s%s' % (I, B, ' + 1' if incl else '')
    return '%s < %s%s' % (I, B, ' - 1' if incl else '')


WIDE_MODES = ['CUDA', 'HIP', 'Metal']


WIDE = ('tr_wrapped || ref_negative', WIDE_MODES)    # the sequential loop takes a negative value (which the 32-bit unsigned index arithmetic cannot reproduce
                                                    # in a 64-bit iterator), or the translation visited a value in [2^31, 2^32) (true values are below 2^15)


def UNSNEG(init, bound):
    # the iterator is unsigned and the initial value or the bound is a negative signed value: the sequential loop compares in
    # unsigned arithmetic, the emitted launch-size expression is evaluated in the operands' own signed type
    return ('((long)(%s)) < 0 || ((long)(%s)) < 0' % (init, bound), O.LAUNCH_MODES)


NEG = 'launch_negative && nvis[0] == 0'   # the sequential loop is empty and the launcher computed a negative dimension


def programs(tier, seed):
    U = 5
    fix = 2 if tier == 'thorough' else 1
    rnd = random.Random(1234 + seed)
    heads = []
    # (1) every comparison x side x step with the plainest operands
    for cmp_, side in itertools.product(['<', '<=', '>', '>='], 'LR'):
        for pos in (True, False):
            if not direction_ok(cmp_, side, pos): continue
            for st in (STEPS_POS if pos else STEPS_NEG):
                heads.append(('int', 'a' if pos else 'N', cmp_, side, 'N' if pos else 'a', st, pos))
    # (2) every pair (init shape, bound shape), comparison/step rotating so that all combinations get covered
    combos = [(cmp_, side, pos, st) for cmp_, side in itertools.product(['<', '<=', '>', '>='], 'LR') for pos in (True, False)
              if direction_ok(cmp_, side, pos) for st in (STEPS_POS if pos else STEPS_NEG)]
    k = 0
    pairs = list(itertools.product(EXPRS, EXPRS))
    if tier != 'thorough':
        pairs = [p for j, p in enumerate(pairs) if (j % 3 == seed % 3) or p[0] in ('a + b', 'N') or p[1] in ('a + b', 'N >> 1', 'c ? a : b')]
    for init, bound in pairs:
        reps = 1
        for _ in range(reps):
            cmp_, side, pos, st = combos[k % len(combos)]; k += 7
            T = TYPES[k % 3] if tier == 'thorough' else ('unsigned int' if (k // 7) % 6 == 3 else ('int' if k % 5 else 'long'))
            if tier != 'thorough' and T == 'unsigned int' and not pos:
                T = 'int'       # a descending unsigned loop wraps below zero and never ends sequentially: no admissible input (thorough keeps them, cut by the trip-count bound)
            heads.append((T, init, cmp_, side, bound, st, pos))
    progs = []; seen = set()
    for n, (T, init, cmp_, side, bound, st, pos) in enumerate(heads):
        for role in (('outer', 'inner') if tier == 'thorough' else (('outer',) if n % 2 == 0 else ('inner',))):
            key = (T, init, cmp_, side, bound, st, role)
            if key in seen: continue
            seen.add(key)
            h = header(T, 'i', init, cmp_, side, bound, st)
            if role == 'outer':
                body = '  %s {\n    for (int j = 0; j < 2; ++j; @inner) {\n      rec(out, i, j);\n    }\n  }\n' % (h.replace('ROLE', 'outer'))
            else:
                body = '  for (int j = 0; j < FIX; ++j; @outer) {\n    %s {\n      rec(out, i, j);\n    }\n  }\n' % (h.replace('ROLE', 'inner'))
            body = body.replace('j < 2', 'j < %d' % fix).replace('j < FIX', 'j < %d' % fix)
            name = 'h%04d%s' % (n, role[0])
            okl = '@kernel void %s(%s) {\n%s}\n' % (name, SIG, body)
            p = O.Prog(name, okl, name, ARGS(tier), refcap=fix * U, cap=U + 1, unwind=fix * U + 2,
                       desc='%s as @%s; |args|<=2^14, 1<=s<=%d, sequential trip count <= %d' % (h.replace('ROLE', role), role, SMAX[tier], U),
                       )
            p.excl_post = {'negative-trip-count': NEG}
            if T == 'long':
                p.excl_post['wide-iterator-negative'] = WIDE
            if T == 'unsigned int':
                p.excl['unsigned-iterator-negative-operand'] = UNSNEG(init, bound)
            progs.append(p)
    # designated program for re-confirming the wide-iterator finding (a negative initial value is reachable)
    okl = '@kernel void hwide(%s) {\n  for (long i = a; i < N; i++; @outer) {\n    for (int j = 0; j < 1; ++j; @inner) {\n      rec(out, i, j);\n    }\n  }\n}\n' % SIG
    p = O.Prog('hwide', okl, 'hwide', ARGS(tier), refcap=U, cap=U + 1, unwind=U + 2, desc='for (long i = a; i < N; i++; @outer): 64-bit iterator with 32-bit operands')
    p.excl_post = {'negative-trip-count': NEG, 'wide-iterator-negative': WIDE}
    p.reconfirms = ('wide-iterator-negative',)
    progs.append(p)
    # designated program for re-confirming the unsigned-iterator finding
    okl = '@kernel void huns(%s) {\n  for (int j = 0; j < 1; ++j; @outer) {\n    for (unsigned int i = b & 15; a <= i; i -= s; @inner) {\n      rec(out, i, j);\n    }\n  }\n}\n' % SIG
    p = O.Prog('huns', okl, 'huns', ARGS(tier), refcap=U, cap=U + 1, unwind=U + 2, desc='for (unsigned int i = b & 15; a <= i; i -= s; @inner): unsigned iterator, signed bound')
    p.excl_post = {'negative-trip-count': NEG}
    p.excl = {'unsigned-iterator-negative-operand': UNSNEG('b & 15', 'a')}
    p.reconfirms = ('unsigned-iterator-negative-operand',)
    progs.append(p)
    # (3) multi-dimensional nests: index <-> dimension assignment
    NESTM = {'n2x2': ['Serial', 'CUDA', 'OpenCL'], 'n3x1': ['OpenMP', 'HIP', 'Metal'], 'n1x3': ['Serial', 'dpcpp', 'CUDA'], 'n2x1s': ['OpenMP', 'OpenCL', 'Metal']}
    nests = [
        ('n2x2', ['for (int o1 = 0; o1 < N; ++o1; @outer)', 'for (int o0 = a; o0 < b; o0 += 2; @outer)', 'for (int i1 = c; i1 > 0; --i1; @inner)', 'for (int i0 = 0; i0 <= 1; i0++; @inner)'], 'o1 * 100 + o0', 'i1 * 100 + i0',
         'N >= 0 && N <= 2 && a <= b && b - a <= 4 && c >= 0 && c <= 2', 16),
        ('n3x1', ['for (int o2 = 0; o2 < 2; ++o2; @outer)', 'for (int o1 = N; o1 > a; o1 -= 3; @outer)', 'for (int o0 = 0; o0 < 2; o0++; @outer)', 'for (int i0 = b; i0 < c; i0++; @inner)'], 'o2 * 10000 + o1 * 10 + o0', 'i0',
         'N >= a && N - a <= 6 && b <= c && c - b <= 2', 16),
        ('n1x3', ['for (int o0 = 0; o0 < N; ++o0; @outer(0))', 'for (int i2 = 0; i2 < 2; ++i2; @inner(2))', 'for (int i1 = a; i1 >= b; i1--; @inner(1))', 'for (int i0 = 0; i0 < 2; i0++; @inner(0))'], 'o0', 'i2 * 10000 + i1 * 10 + i0',
         'N >= 0 && N <= 2 && a + 1 >= b && a - b <= 1', 16),
        ('n2x1s', ['for (int o1 = a; o1 < b; o1 += s; @outer)', 'for (int o0 = N; o0 >= 1; --o0; @outer)', 'for (int i0 = 0; i0 < c; i0 += 2; @inner)'], 'o1 * 100 + o0', 'i0',
         'a <= b && b - a <= 2 * s && N >= 0 && N <= 2 && c >= 0 && c <= 4', 12),
    ]
    for nm, loops, e1, e2, asm, cap in nests:
        body = ''
        for d, l in enumerate(loops):
            body += '  ' * (d + 1) + l + ' {\n'
        body += '  ' * (len(loops) + 1) + 'rec(out, %s, %s);\n' % (e1, e2)
        for d in range(len(loops) - 1, -1, -1):
            body += '  ' * (d + 1) + '}\n'
        okl = '@kernel void %s(%s) {\n%s}\n' % (nm, SIG, body)
        p = O.Prog(nm, okl, nm, ARGS(tier), refcap=cap, cap=3, unwind=5, desc='nest ' + ' / '.join(loops) + '; every loop has 0..2 iterations (%s)' % asm, assumes=[asm])
        p.nest_modes = NESTM[nm]
        progs.append(p)
    return progs


def run(ctx):
    thorough = ctx.tier == 'thorough'
    ctx.level = 'translation_validation'
    progs = programs(ctx.tier, ctx.seed)
    if ctx.only:
        progs = [p for p in progs if re.search(ctx.only, p.name)]
    modes = O.MODES
    known = dict(C.load_known('C17'))
    base = {p.name for p in progs[:48]}
    def modes_of(p, cnt=[0]):
        # thorough: every program on all seven backends.  quick: the 48 plain headers on Serial, CUDA, OpenCL and one more
        # (rotating); operand-shape programs on one launch-model backend (rotating) plus, for every third, a loop-keeping one
        if thorough:
            return modes
        if getattr(p, 'nest_modes', None):
            return p.nest_modes
        cnt[0] += 1; k = cnt[0]
        if p.name in base:
            return ['Serial', 'CUDA', 'OpenCL', ('OpenMP', 'HIP', 'Metal', 'dpcpp')[k % 4]]
        return [O.LAUNCH_MODES[k % 5]] + ([('Serial', 'OpenMP')[k % 2]] if k % 3 == 0 else [])
    wv = [dict(N=3, a=1, b=1, c=1, s=1), dict(N=1, a=3, b=1, c=1, s=1), dict(N=0, a=0, b=0, c=0, s=1), dict(N=2, a=1, b=2, c=1, s=2),
          dict(N=1, a=2, b=1, c=2, s=1), dict(N=4, a=2, b=1, c=0, s=1), dict(N=2, a=0, b=3, c=2, s=2), dict(N=-1, a=-2, b=-1, c=1, s=1)]
    qs, rejected = O.make_queries(ctx, progs, modes, O.visit_harness, known_keys=list(known), timeout=900 if thorough else 600, witness_vectors=wv, modes_of=modes_of)
    # re-confirm each listed finding on its designated program (still reproduces -> KNOWN-FINDING line)
    if not ctx.only:
        qs += O.known_reconfirm(ctx, progs, known, O.visit_harness)
    C.run_queries(ctx, qs)
    ctx.extra['programs'] = len(progs)
    ctx.extra['programs_rejected_by_occa'] = rejected[:40]
    ctx.extra['programs_rejected_count'] = len(rejected)
    ctx.extra['disagreements_checked'] = sum(1 for r in ctx.queries if r.get('status') == 'fail')
    ctx.extra['modes'] = modes
    ctx.samples = [{'program': p.okl, 'desc': p.desc} for p in progs[:3] + progs[-2:]]
    ctx.bounds = {'loop headers': '%d generated programs (operand shapes %s; all comparisons, both operand orders, ++/--/+=/-= with literal and run-time steps; iterator types int/long/unsigned int)' % (len(progs), EXPRS),
                  'run-time values': 'all values of N,a,b,c in [-2^14,2^14] and s in [1,%d]' % SMAX[ctx.tier] + ' (so that the sequential loop cannot overflow)',
                  'trip count': 'sequential trip count <= 5 per loop under test (paths beyond are cut by assumption); launch dimensions <= 6',
                  'outside': 'trip counts above the bound; operands outside the range (overflow in the emitted count expression near INT_MAX); non-positive run-time steps; floating iterators'}
    ctx.assumptions += ['launch model: a launch of outer=(x,y,z), inner=(x,y,z) runs the device function once for every (block,thread); a zero dimension runs nothing',
                        'the normaliser only deletes backend decoration and maps index builtins (vlib/okl.py); the reference is the OKL text with @attributes deleted',
                        'run-time step s >= 1']
    if len(rejected) > len(progs) * len(modes) // 2:
        ctx.inconclusive.append('occa rejected most generated programs (%d): generator or translator broken' % len(rejected))
    return C.finish(ctx)


def replay_query(ctx, meta):
    return O.replay_query(ctx, meta, 'C17')
