"""C18 @tile covers the original loop's iterations exactly once (E2: emitted code -> CBMC).
Reference = the same loop with the @tile attribute deleted."""
import os, re, itertools
from vlib import common as C, okl as O
from props.C17 import direction_ok, NEG, WIDE

R = 1 << 12
SIG = 'const int N, const int a, const int b, const int s, const int t, int *out'
U = 5


def args(tier):
    return [('int', 'N', -R, R), ('int', 'a', -R, R), ('int', 'b', -R, R), ('int', 's', 1, 4 if tier == 'quick' else 64), ('int', 't', 1, 4), ('int *', 'out', None, None)]

STEPS_POS = ['++i', 'i++', 'i += 2', 'i += 3', 'i += s']
STEPS_NEG = ['--i', 'i--', 'i -= 2', 'i -= 3', 'i -= s']
TILES = ['1', '2', '3', '4', '8', 't', 't + 1']
OPERANDS = [('a', 'N'), ('0', 'N'), ('a + b', 'N'), ('a', 'N >> 1'), ('a - b', 'N - 1'), ('b', 'a | N')]
FORMS = ['oi', 'o', 'i', 'plain']


def make(name, T, init, cmp_, side, bound, step, tile, form, check, tier):
    chk = 'i %s %s' % (cmp_, bound) if side == 'L' else '%s %s i' % (bound, cmp_)
    kw = '' if check else ', check=false'
    hd = 'for (%s i = %s; %s; %s; @tile(%s%%s%s))' % (T, init, chk, step, tile, kw)
    if form == 'oi':
        body = '  %s {\n    rec(out, i, 0);\n  }\n' % (hd % ', @outer, @inner')
    elif form == 'o':
        body = '  %s {\n    for (int j = 0; j < 1; ++j; @inner) {\n      rec(out, i, j);\n    }\n  }\n' % (hd % ', @outer')
    elif form == 'i':
        body = '  for (int o = 0; o < 1; ++o; @outer) {\n    %s {\n      rec(out, i, o);\n    }\n  }\n' % (hd % ', @inner')
    else:
        body = '  for (int o = 0; o < 1; ++o; @outer) {\n    for (int j = 0; j < 1; ++j; @inner) {\n      %s {\n        rec(out, i, j);\n      }\n    }\n  }\n' % (hd % '')
    okl = '@kernel void %s(%s) {\n%s}\n' % (name, SIG, body)
    tmax = {'t': 4, 't + 1': 5}.get(tile) or int(tile)
    p = O.Prog(name, okl, name, args(tier), refcap=U, cap=max(U + 1, tmax), unwind=max(U, tmax) + 2,
               desc='%s [form %s]; |N,a,b|<=2^12, 1<=s<=%d, 1<=t<=4, sequential trip count <= %d%s' % (hd % {'oi': ', @outer, @inner', 'o': ', @outer', 'i': ', @inner', 'plain': ''}[form], form, 4 if tier == 'quick' else 64, U,
                                                                                                 '' if check else ', trip count a multiple of the tile size'))
    if not check:
        p.mid_assumes = ['nvis[0] %% (%s) == 0' % tile]
    p.excl_post = {'negative-trip-count': NEG}
    if T == 'long' and form != 'plain':
        p.excl_post['wide-iterator-negative'] = WIDE
    p.form = form
    return p


def programs(tier, seed):
    progs = []; n = 0
    combos = [(cmp_, side, pos) for cmp_, side in itertools.product(['<', '<=', '>', '>='], 'LR') for pos in (True, False) if direction_ok(cmp_, side, pos)]
    k = seed
    # every comparison/side x step x tile size once (operands plain), forms rotating; thorough: all forms
    for (cmp_, side, pos) in combos:
        for st in (STEPS_POS if pos else STEPS_NEG):
            k += 1
            for ti, tile in enumerate(TILES):
                if (tier != 'thorough' and ti != k % 7) or (tier == 'thorough' and (ti + k) % 7 not in (0, 2, 5)):
                    continue
                forms = FORMS if tier == 'thorough' else [FORMS[(k // 7 + k) % 4]]
                for form in forms:
                    init, bound = ('a', 'N') if pos else ('N', 'a')
                    progs.append(make('t%04d' % n, 'int', init, cmp_, side, bound, st, tile, form, True, tier)); n += 1
    # operand shapes x a few tiles; check=false variants
    for (lo, hi) in OPERANDS:
        for j, (cmp_, side, pos) in enumerate(combos):
            if tier != 'thorough' and (j + len(lo)) % 2: continue
            init, bound = (lo, hi) if pos else (hi, lo)
            st = (STEPS_POS if pos else STEPS_NEG)[(j + len(hi)) % 5]
            progs.append(make('t%04d' % n, ('int', 'long')[j % 2], init, cmp_, side, bound, st, TILES[(j * 3 + len(lo)) % 7], FORMS[j % 4], True, tier)); n += 1
    for j, (cmp_, side, pos) in enumerate(combos):
        for tile in (['2', '4', 't'] if tier == 'thorough' else [['2', '4', 't'][j % 3]]):
            init, bound = ('a', 'N') if pos else ('N', 'a')
            st = (STEPS_POS if pos else STEPS_NEG)[j % 5]
            progs.append(make('t%04d' % n, 'int', init, cmp_, side, bound, st, tile, FORMS[(j + 1) % 3], False, tier)); n += 1
    pw = make('twide', 'long', 'a', '<', 'L', 'N', 'i++', '2', 'oi', True, tier)
    pw.reconfirms = ('wide-iterator-negative',)
    progs.append(pw)
    # several @tile loops in one source (attribute state must not leak from one loop to the next)
    multi = [
        ('tpair1', ['for (int i = 0; i < 2 * c2; ++i; @tile(2, @outer, @inner, check=false)) {\n    rec(out, i, 1);\n  }',
                    'for (int j = a; j < N; ++j; @tile(4, @outer, @inner)) {\n    rec(out, j, 2);\n  }']),
        ('tpair2', ['for (int j = a; j < N; j += 2; @tile(2, @outer, @inner)) {\n    rec(out, j, 2);\n  }',
                    'for (int i = 4 * c2; i > 0; --i; @tile(4, @outer, @inner, check=false)) {\n    rec(out, i, 1);\n  }',
                    'for (int k = N; k > a; --k; @tile(3, @outer, @inner, check=true)) {\n    rec(out, k, 3);\n  }']),
        ('tpair3', ['for (int i = 0; i < 3 * c2; ++i; @tile(3, @outer, check=false)) {\n    for (int q = 0; q < 1; ++q; @inner) {\n      rec(out, i, 1);\n    }\n  }',
                    'for (int j = a; j <= N; ++j; @tile(2, @outer)) {\n    for (int q = 0; q < 1; ++q; @inner) {\n      rec(out, j, 2);\n    }\n  }']),
    ]
    for nm, loops in multi:
        okl = '@kernel void %s(%s) {\n  %s\n}\n' % (nm, SIG, '\n  '.join(loops).replace('c2', '(b & 1)'))
        pm = O.Prog(nm, okl, nm, args(tier), refcap=12, cap=6, unwind=8, desc='several @tile loops in one kernel, check=false next to default/check=true: ' + ' | '.join(l.split('{')[0].strip() for l in loops),
                    assumes=['N - a <= 5 && N - a >= -2'])
        pm.excl_post = {'negative-trip-count': 'launch_negative'}
        pm.form = 'oi'
        progs.append(pm)
    # two-dimensional tiling (nested @tile(@outer,@inner): the @outer loop floats up)
    okl = ('@kernel void t2d(%s) {\n  for (int j = 0; j < N; ++j; @tile(2, @outer, @inner)) {\n    for (int i = a; i < b; i += 2; @tile(t, @outer, @inner)) {\n      rec(out, i, j);\n    }\n  }\n}\n' % SIG)
    p = O.Prog('t2d', okl, 't2d', args(tier), refcap=9, cap=4, unwind=6, desc='nested @tile(2,@outer,@inner) x @tile(t,@outer,@inner); 0<=N<=3, 0<=b-a<=6, 1<=t<=3',
               assumes=['N >= 0 && N <= 3 && a <= b && b - a <= 6 && t <= 3'])
    p.form = 'oi'
    progs.append(p)
    return progs


def run(ctx):
    thorough = ctx.tier == 'thorough'
    ctx.level = 'translation_validation'
    progs = programs(ctx.tier, ctx.seed)
    if ctx.only:
        progs = [p for p in progs if re.search(ctx.only, p.name)]
    known = dict(C.load_known('C18'))
    def modes_of(p, cnt=[0]):
        if p.form == 'plain':
            return ['Serial', 'CUDA'] if not thorough else ['Serial', 'OpenMP', 'CUDA', 'OpenCL']
        if thorough:
            return O.MODES
        cnt[0] += 1; k = cnt[0]
        return [('Serial', 'OpenMP')[k % 2], O.LAUNCH_MODES[k % 5]]
    wv = [dict(N=3, a=1, b=1, s=1, t=1), dict(N=1, a=3, b=1, s=1, t=1), dict(N=0, a=0, b=0, s=1, t=1), dict(N=4, a=0, b=0, s=2, t=2), dict(N=0, a=4, b=0, s=2, t=2),
          dict(N=2, a=0, b=2, s=1, t=2), dict(N=6, a=0, b=0, s=3, t=2), dict(N=0, a=6, b=0, s=3, t=2), dict(N=0, a=0, b=0, s=1, t=3), dict(N=16, a=0, b=0, s=1, t=1)]
    qs, rejected = O.make_queries(ctx, progs, O.MODES, O.visit_harness, known_keys=list(known), timeout=1200 if thorough else 600, witness_vectors=wv, modes_of=modes_of)
    if not ctx.only:
        qs += O.known_reconfirm(ctx, progs, known, O.visit_harness)
    C.run_queries(ctx, qs)
    ctx.extra['programs'] = len(progs)
    ctx.extra['programs_rejected_by_occa'] = rejected[:40]
    ctx.extra['programs_rejected_count'] = len(rejected)
    ctx.extra['disagreements_checked'] = sum(1 for r in ctx.queries if r.get('status') == 'fail')
    ctx.samples = [{'program': p.okl, 'desc': p.desc} for p in progs[:3] + progs[-2:]]
    ctx.bounds = {'tiled loops': '%d generated programs: comparisons <,<=,>,>= with the iterator on either side; steps %s / %s; tile sizes %s (t run-time in 1..4); forms @tile(T,@outer,@inner), @tile(T,@outer), @tile(T,@inner), @tile(T); check=true and check=false; one nested 2-D tiling' % (len(progs), STEPS_POS, STEPS_NEG, TILES),
                  'run-time values': 'all N,a,b in [-2^12,2^12], s in [1,%d], t in [1,4]' % (64 if thorough else 4),
                  'trip count': 'sequential trip count <= %d (longer runs are cut by assumption)' % U,
                  'outside': 'trip counts above the bound, tile sizes above 8, non-positive run-time tile sizes or steps, operands near INT_MAX'}
    ctx.assumptions += ['launch model as in C17; zero-sized launch runs nothing', 'reference = the loop with its @tile attribute deleted (vlib/okl.py strip_attrs)', 'check=false: only inputs whose sequential trip count is a multiple of the tile size']
    if len(rejected) > len(qs) // 2:
        ctx.inconclusive.append('occa rejected most generated programs (%d): generator or translator broken' % len(rejected))
    return C.finish(ctx)


def replay_query(ctx, meta):
    return O.replay_query(ctx, meta, 'C18')
