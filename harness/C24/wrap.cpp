// C24 wrappers: the real occa::json string dump/parse code
#include "types/json.cpp"
#include "errstub.hpp"
#include <cstring>
#define VX extern "C" __attribute__((noinline))
// string value -> dump -> load: returns 1 iff the loaded value is a string; copies dumped text and loaded value out
VX int j_string_roundtrip(const char *s, int n, char *dumped, int *dn, char *loaded, int *ln) {
  try {
    occa::json j(std::string(s, (size_t) n));
    std::string d = j.dump(0);
    *dn = (int) d.size();
    for (size_t i = 0; i < d.size() && i < 16; i++) dumped[i] = d[i];
    occa::json k;
    k.load(d);
    if (!k.isString()) return 0;
    const std::string &v = k.string();
    *ln = (int) v.size();
    for (size_t i = 0; i < v.size() && i < 16; i++) loaded[i] = v[i];
    return 1;
  } catch (...) { return -1; }
}
// one-field object {key: "v"} -> dump -> load: returns 1 iff the loaded value is an object with exactly that key
VX int j_key_roundtrip(const char *s, int n, char *loadedKey, int *ln) {
  try {
    occa::json j;
    j.asObject();
    const std::string key(s, (size_t) n);
    j.object()[key] = occa::json(std::string("v"));
    std::string d = j.dump(0);
    occa::json k;
    k.load(d);
    if (!k.isObject()) return 0;
    if (k.object().size() != 1) return 2;
    const std::string &lk = k.object().begin()->first;
    *ln = (int) lk.size();
    for (size_t i = 0; i < lk.size() && i < 16; i++) loadedKey[i] = lk[i];
    return 1;
  } catch (...) { return -1; }
}
