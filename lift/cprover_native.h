/* gcc build of the lifted C (translator validation): CBMC primitives as plain C */
#ifndef CPROVER_NATIVE_H
#define CPROVER_NATIVE_H
#include <stdio.h>
#include <stdlib.h>
/* checks inside the lifted code are CBMC obligations; the validation build only compares outputs */
#define __CPROVER_assert(c, msg) do { if (!(c)) { fprintf(stderr, "CHECK-FAIL: %s\n", msg); } } while (0)
#define __CPROVER_overflow_plus(a, b) __builtin_add_overflow_p(a, b, (__typeof__((a) + (b))) 0)
#define __CPROVER_overflow_minus(a, b) __builtin_sub_overflow_p(a, b, (__typeof__((a) - (b))) 0)
#define __CPROVER_overflow_mult(a, b) __builtin_mul_overflow_p(a, b, (__typeof__((a) * (b))) 0)
#define __CPROVER_assume(c) do { if (!(c)) { printf("ASSUME-FALSE(model)\n"); exit(3); } } while (0)
#define __CPROVER_atomic_begin() ((void)0)
#define __CPROVER_atomic_end() ((void)0)
#endif
