// C03/C04: the real memory-pool code (modeMemoryPool_t reserve/resize/setAlignment/add-/removeModeMemoryRef, serial::memoryPool
// slice/setPtr/memcpy, serial::memory, modeMemory_t) over a buffer double whose bytes live in harness-visible arenas.
// std::set<modeMemory_t*, compare> is replaced by a flat sorted array with the same interface (partial specialisation for
// the element type modeMemory_t*): the red-black tree of libstdc++ is a pointer-linked structure whose shape would become
// symbolic with symbolic offsets; the flat array keeps the same order (it uses the pool's own `compare`).
#include <string>
#include <vector>
#include <map>
#include <iostream>
#include <sstream>
#include <set>
#include <cstring>
#include <new>
namespace occa { class modeMemory_t; }
#define VSET_CAP 6
namespace std {
  template <class C>
  class set<occa::modeMemory_t*, C, allocator<occa::modeMemory_t*> > {
   public:
    typedef occa::modeMemory_t* T;
    typedef T* iterator;
    typedef T* const_iterator;
    T arr[VSET_CAP + 1];
    size_t n;
    set() : n(0) { for (int i = 0; i <= VSET_CAP; ++i) arr[i] = 0; }
    iterator begin() { return arr; }
    iterator end() { return arr + n; }
    size_t size() const { return n; }
    iterator find(T x) {
      for (size_t i = 0; i < n; ++i) if (arr[i] == x) return arr + i;
      return arr + n;
    }
    void erase(iterator pos) {
      size_t p = (size_t) (pos - arr);
      if (p >= n) return;                       // erase(end()) is undefined for std::set; the harness asserts it is not reached
      for (size_t i = p; i + 1 < n; ++i) arr[i] = arr[i + 1];
      --n; arr[n] = 0;
    }
    void emplace(T x) {
      C less;
      size_t p = 0;
      for (size_t i = 0; i < n; ++i) {
        if (arr[i] == x) return;                // already present (equivalence under `compare` is identity)
        if (less(arr[i], x)) p = i + 1;
      }
      if (n >= VSET_CAP) return;                // bound of the harness; the harness never exceeds it
      for (size_t i = n; i > p; --i) arr[i] = arr[i - 1];
      arr[p] = x; ++n;
    }
  };
}
#define private public
#define protected public
#include "core/memory.cpp"
#include "occa/internal/core/memory.cpp"
#include "occa/internal/core/buffer.cpp"
#include "occa/internal/core/memoryPool.cpp"
#include "occa/internal/modes/serial/memory.cpp"
#include "occa/internal/modes/serial/memoryPool.cpp"
#include "dtype/dtype.cpp"
#include "occa/internal/utils/gc.cpp"
#include "errstub.hpp"
#define VX extern "C" __attribute__((noinline))

#define ARENA 64
#define NARENA 8
static char g_arena[NARENA][ARENA];
static int g_arena_used = 0;
static int g_arena_overflow = 0;

// buffer double: bytes come from the arenas above (each malloc takes a fresh one, so old and new pool buffers never alias)
struct vbuf : public occa::modeBuffer_t {
  vbuf(occa::modeDevice_t *d) : occa::modeBuffer_t(d, 0, occa::json()) {}
  void malloc(occa::udim_t bytes) {
    if (g_arena_used >= NARENA || bytes > ARENA) { g_arena_overflow = 1; ptr = g_arena[NARENA - 1]; size = bytes; return; }
    ptr = g_arena[g_arena_used++]; size = bytes;
  }
  void wrapMemory(const void *p, const occa::udim_t bytes) { ptr = (char*) const_cast<void*>(p); size = bytes; isWrapped = true; }
  occa::modeMemory_t* slice(const occa::dim_t, const occa::udim_t) { return 0; }
  void detach() {}
};
struct vpool : public occa::serial::memoryPool {
  vpool(occa::modeDevice_t *d) : occa::serial::memoryPool(d, occa::json()) {}
  occa::modeBuffer_t* makeBuffer() { return new vbuf(modeDevice); }
};
struct fakedev_t { alignas(occa::modeDevice_t) char b[sizeof(occa::modeDevice_t)]; };
static fakedev_t g_fd;
static vpool *g_pool;
#define NH 8
static occa::modeMemory_t *g_h[NH];
static int g_nh = 0;

VX void p_init(long alignment) {
  memset(g_fd.b, 0, sizeof(g_fd.b));
  g_pool = new vpool(reinterpret_cast<occa::modeDevice_t*>(g_fd.b));
  g_pool->dontUseRefs();                       // the pool outlives the history (its own release is not the subject)
  g_pool->setAlignment((occa::udim_t) alignment);
}
VX int p_reserve(long bytes) {
  try { occa::modeMemory_t *m = g_pool->reserve((occa::udim_t) bytes); m->dontUseRefs(); g_h[g_nh] = m; return g_nh++; } catch (...) { return -1; }
}
VX int p_slice(int h, long offset, long bytes) {
  try { occa::modeMemory_t *m = g_h[h]->slice(offset, (occa::udim_t) bytes); m->dontUseRefs(); g_h[g_nh] = m; return g_nh++; } catch (...) { return -1; }
}
VX void p_release(int h) { delete g_h[h]; g_h[h] = 0; }
VX int p_resize(long bytes) { try { g_pool->resize((occa::udim_t) bytes); return 0; } catch (...) { return 1; } }
VX int p_shrink(void) { try { g_pool->resize(g_pool->reserved); return 0; } catch (...) { return 1; } }      // memoryPool::shrinkToFit
VX int p_set_alignment(long a) { try { g_pool->setAlignment((occa::udim_t) a); return 0; } catch (...) { return 1; } }
VX long p_off(int h) { return (long) g_h[h]->offset; }
VX long p_size(int h) { return (long) g_h[h]->size; }
VX char *p_ptr(int h) { return g_h[h]->ptr; }
VX long p_pool_size(void) { return (long) g_pool->size; }
VX long p_pool_reserved(void) { return (long) g_pool->reserved; }
VX long p_pool_nres(void) { return (long) g_pool->numReservations(); }
VX long p_pool_alignment(void) { return (long) g_pool->alignment; }
VX char *p_pool_ptr(void) { return g_pool->buffer ? g_pool->buffer->ptr : (char*) 0; }
VX long p_pool_buffer_size(void) { return g_pool->buffer ? (long) g_pool->buffer->size : 0; }
VX long p_dev_bytes(void) { return (long) reinterpret_cast<occa::modeDevice_t*>(g_fd.b)->bytesAllocated; }
VX int p_arena_overflow(void) { return g_arena_overflow; }
// used by the C model of modeBuffer_t::~modeBuffer_t (harness/C03/models_c03.c), which cuts the mutual recursion
// ~modeBuffer_t -> delete slice -> ~modeMemory_t -> delete buffer out of the encoding
VX int b_ring_empty(occa::modeBuffer_t *b) { return b->modeMemoryRing.head == 0; }
VX void b_dtor_tail(occa::modeBuffer_t *b) {
  if (b->modeDevice && !b->isWrapped) b->modeDevice->bytesAllocated -= b->size;
  b->size = 0; b->isWrapped = false;
}
