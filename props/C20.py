"""C20 translated kernels compute what the OKL kernel means, on every backend (E2: emitted code -> CBMC).
Corpus of OKL kernels covering the feature list; arrays have symbolic contents and exact sizes, scalars are symbolic in
small ranges; Serial/OpenMP translations run as emitted, launch-model backends run under the grid emulation (barrier
kernels: phase execution, vlib/okl.py phase_transform)."""
import os, re
from vlib import common as C, okl as O

A8 = 8


def K(name, okl, scalars, arrays, assumes=(), ref=None, modes=None, cap=4, unwind=10, feats='', arr_range=(-50, 50)):
    kernel = name
    args = []
    # argument order = order of appearance in the kernel signature
    m0 = re.search(r'@kernel\s+void\s+%s\s*\(' % name, okl)
    sig = okl[m0.end():O._match(okl, m0.end() - 1) - 1]
    sc = {n: (t, lo, hi) for (t, n, lo, hi) in scalars}; ar = {n: (t, sz, d) for (t, n, sz, d) in arrays}
    for p in O._split_params(sig):
        n = O._param_name(O.strip_attrs(p).strip())
        if n in sc:
            t, lo, hi = sc[n]; args.append((t, n, lo, hi))
        else:
            t, sz, d = ar[n]; args.append((t + ' *', n, None, None))
    p = O.Prog(name, okl, kernel, args, refcap=1, cap=cap, unwind=unwind, desc=feats, assumes=assumes, ref=ref)
    p.arrays = list(arrays); p.arr_range = arr_range; p.only_modes = modes; p.feats = feats
    return p


def corpus(tier):
    P = []
    P.append(K('vadd', '''
@kernel void vadd(const int N, const int *a, const int *b, int *out) {
  for (int o = 0; o < N; o += 2; @outer) {
    for (int i = o; i < o + 2; ++i; @inner) {
      if (i < N) {
        out[i] = a[i] + b[i];
      }
    }
  }
}''', [('int', 'N', 0, A8)], [('int', 'a', A8, 'in'), ('int', 'b', A8, 'in'), ('int', 'out', A8, 'out')], feats='1 outer x 1 inner, inner bound depends on outer iterator, guard'))
    P.append(K('grid2d', '''
@kernel void grid2d(const int W, const int H, const int s, const int *in, int *out) {
  for (int y = 0; y < H; ++y; @outer) {
    for (int x = 0; x < W; x += 2; @outer) {
      for (int j = 0; j < 2; ++j; @inner) {
        for (int i = 0; i < 2; ++i; @inner) {
          const int xx = x + i;
          if (xx < W && j < 1) {
            out[y * 4 + xx] = in[y * 4 + xx] + s + j;
          }
        }
      }
    }
  }
}''', [('int', 'W', 0, 4), ('int', 'H', 0, 2), ('int', 's', -3, 3)], [('int', 'in', A8, 'in'), ('int', 'out', A8, 'out')], feats='2 outer x 2 inner, scalar args, local const declaration'))
    P.append(K('siblings', '''
@kernel void siblings(const int N, const int *in, int *tmp, int *out) {
  for (int o = 0; o < 2; ++o; @outer) {
    for (int i = 0; i < 4; ++i; @inner) {
      const int k = o * 4 + i;
      if (k < N) tmp[k] = in[k] + 1;
    }
    for (int i = 0; i < 4; ++i; @inner) {
      const int k = o * 4 + i;
      if (k < N) out[k] = tmp[k] * 2;
    }
  }
  for (int o = 0; o < 2; ++o; @outer) {
    for (int i = 0; i < 4; ++i; @inner) {
      const int k = o * 4 + i;
      if (k < N) out[k] = out[k] - in[k];
    }
  }
}''', [('int', 'N', 0, A8)], [('int', 'in', A8, 'in'), ('int', 'tmp', A8, 'inout'), ('int', 'out', A8, 'inout')], feats='sibling @inner loops (each thread reads what it wrote itself) and sibling @outer loops (two launches)'))
    P.append(K('helper', '''
int sq(const int x) { return x * x; }
int addp(const int *p, const int i) { return p[i] + p[0]; }
@kernel void helper(const int N, const int *in, int *out) {
  for (int o = 0; o < N; ++o; @outer) {
    for (int i = 0; i < 2; ++i; @inner) {
      out[o * 2 + i] = sq(in[o * 2 + i]) + addp(in, i);
    }
  }
}''', [('int', 'N', 0, 4)], [('int', 'in', A8, 'in'), ('int', 'out', A8, 'out')], feats='helper functions with scalar and pointer parameters', arr_range=(-40, 40)))
    P.append(K('control', '''
@kernel void control(const int N, const int m, const int *in, int *out) {
  for (int o = 0; o < 2; ++o; @outer) {
    for (int i = 0; i < 4; ++i; @inner) {
      const int k = o * 4 + i;
      if (k < N) {
        int acc = 0;
        int v = in[k] & 3;
        while (v > 0) { acc += v; --v; }
        for (int r = 0; r < 2; ++r) { acc += (r ? m : -m); }
        if (in[k] > 0) { acc = acc * 2; } else if (in[k] < 0) { acc = -acc; } else { acc = 7; }
        out[k] = (acc > 5 ? acc - 5 : acc) + (k & 1);
      }
    }
  }
}''', [('int', 'N', 0, A8), ('int', 'm', -4, 4)], [('int', 'in', A8, 'in'), ('int', 'out', A8, 'out')], feats='local declarations, while/for/if-else chains, ternary inside @inner'))
    P.append(K('restrictk', '''
@kernel void restrictk(const int N, @restrict const int *a, @restrict int *out) {
  for (int o = N - 1; o >= 0; --o; @outer) {
    for (int i = 1; i >= 0; i--; @inner) {
      out[o * 2 + i] = a[o * 2 + (1 - i)];
    }
  }
}''', [('int', 'N', 0, 4)], [('int', 'a', A8, 'in'), ('int', 'out', A8, 'out')], feats='@restrict, descending @outer and @inner loops'))
    P.append(K('sharedrev', '''
@kernel void sharedrev(const int N, const int *in, int *out) {
  for (int b = 0; b < N; b += 4; @outer) {
    @shared int s[4];
    for (int t = 0; t < 4; ++t; @inner) {
      s[t] = in[b + t];
    }
    @barrier;
    for (int t = 0; t < 4; ++t; @inner) {
      out[b + t] = s[3 - t];
    }
  }
}''', [('int', 'N', 0, A8)], [('int', 'in', A8, 'in'), ('int', 'out', A8, 'out')], assumes=['N % 4 == 0'], feats='@shared + @barrier: reversal inside a block'))
    P.append(K('exclusive', '''
@kernel void exclusive(const int N, const int *in, int *out) {
  for (int b = 0; b < N; b += 4; @outer) {
    @exclusive int e;
    @shared int s[4];
    for (int t = 0; t < 4; ++t; @inner) {
      e = in[b + t] * 2;
      s[t] = t;
    }
    @barrier;
    for (int t = 0; t < 4; ++t; @inner) {
      out[b + t] = e + s[(t + 1) & 3];
    }
  }
}''', [('int', 'N', 0, A8)], [('int', 'in', A8, 'in'), ('int', 'out', A8, 'out')], assumes=['N % 4 == 0'], feats='@exclusive carried across @inner loops, with @shared',
             ref='''
void exclusive(const int N, const int *in, int *out) {
  for (int b = 0; b < N; b += 4) {
    int e[4]; int s[4];
    for (int t = 0; t < 4; ++t) { e[t] = in[b + t] * 2; s[t] = t; }
    for (int t = 0; t < 4; ++t) { out[b + t] = e[t] + s[(t + 1) & 3]; }
  }
}'''))
    P.append(K('atomicsum', '''
@kernel void atomicsum(const int N, const int *in, int *out) {
  for (int o = 0; o < 2; ++o; @outer) {
    for (int i = 0; i < 4; ++i; @inner) {
      const int k = o * 4 + i;
      if (k < N) {
        @atomic out[0] += in[k];
        @atomic out[1] -= 1;
        @atomic out[3]++;
      }
    }
  }
}''', [('int', 'N', 0, A8)], [('int', 'in', A8, 'in'), ('int', 'out', 4, 'inout')], feats='@atomic +=, -=, ++ (commutative updates)'))
    P.append(K('atomicblock', '''
@kernel void atomicblock(const int N, const int *in, int *out) {
  for (int o = 0; o < 2; ++o; @outer) {
    for (int i = 0; i < 2; ++i; @inner) {
      const int k = o * 2 + i;
      if (k < N) {
        @atomic {
          out[0] += in[k];
          out[1] += 1;
        }
      }
    }
  }
}''', [('int', 'N', 0, 4)], [('int', 'in', 4, 'in'), ('int', 'out', 2, 'inout')], feats='@atomic block', modes=['Serial', 'OpenMP']))
    P.append(K('attrs', '''
@kernel void attrs(const int N, const int *in, int *out) {
  for (int o = 0; o < N; o += 2; @outer) {
    for (int i = 0; i < 2; ++i; @inner @nobarrier) {
      out[o + i] = in[o + i] + 1;
    }
    for (int i = 0; i < 2; ++i; @inner) {
      out[o + i] += 2;
    }
  }
}''', [('int', 'N', 0, A8)], [('int', 'in', A8, 'in'), ('int', 'out', A8, 'out')], assumes=['N % 2 == 0'], feats='@nobarrier between sibling @inner loops touching only own elements'))
    P.append(K('maxinner', '''
@kernel void maxinner(const int N, const int M, const int *in, int *out) {
  for (int o = 0; o < N; ++o; @outer) {
    for (int i = 0; i < M; ++i; @inner) {
      out[o * 2 + i] = in[o * 2 + i] - o;
    }
  }
}''', [('int', 'N', 0, 4), ('int', 'M', 0, 2)], [('int', 'in', A8, 'in'), ('int', 'out', A8, 'out')], feats='run-time @inner bound'))
    P.append(K('maxinner2', '''
@kernel void maxinner2(const int N, const int M, const int *in, int *out) {
  @max_inner_dims(2)
  for (int o = 0; o < N; ++o; @outer) {
    for (int i = 0; i < M; ++i; @inner) {
      out[o * 2 + i] = in[o * 2 + i] - o;
    }
  }
}''', [('int', 'N', 0, 4), ('int', 'M', 0, 2)], [('int', 'in', A8, 'in'), ('int', 'out', A8, 'out')], feats='@max_inner_dims with run-time @inner bound'))
    P.append(K('tiled', '''
@kernel void tiled(const int N, const int *in, int *out) {
  for (int i = 0; i < N; ++i; @tile(4, @outer, @inner)) {
    out[i] = in[i] * 3;
  }
}''', [('int', 'N', 0, A8)], [('int', 'in', A8, 'in'), ('int', 'out', A8, 'out')], feats='@tile(4,@outer,@inner)'))
    P.append(K('tiledincl', '''
@kernel void tiledincl(const int N, const int *in, int *out) {
  for (int i = 0; N - 1 >= i; ++i; @tile(4, @outer, @inner)) {
    out[i] = in[i] - 7;
  }
  for (int j = N - 1; 0 <= j; j -= 2; @tile(2, @outer, @inner)) {
    out[j] += 100;
  }
}''', [('int', 'N', 0, A8)], [('int', 'in', A8, 'in'), ('int', 'out', A8, 'out')], feats='@tile with inclusive comparisons written bound-first, ascending and descending with a step'))
    P.append(K('tiled2d', '''
@kernel void tiled2d(const int W, const int H, const int *in, int *out) {
  for (int y = 0; y < H; ++y; @tile(2, @outer, @inner)) {
    for (int x = 0; x < W; ++x; @tile(2, @outer, @inner)) {
      out[y * W + x] = in[y * W + x] + y - x;
    }
  }
}''', [('int', 'W', 0, 3), ('int', 'H', 0, 2)], [('int', 'in', A8, 'in'), ('int', 'out', A8, 'out')], feats='nested @tile 2-D', cap=3))
    P.append(K('dimk', '''
@kernel void dimk(const int W, const int H, const int *in @dim(W, H), int *out @dim(H, W) @dimOrder(1, 0)) {
  for (int y = 0; y < H; ++y; @outer) {
    for (int x = 0; x < W; ++x; @inner) {
      out(y, x) = in(x, y) + 1;
    }
  }
}''', [('int', 'W', 0, 4), ('int', 'H', 0, 2)], [('int', 'in', A8, 'in'), ('int', 'out', A8, 'out')], feats='@dim / @dimOrder kernel arguments',
             ref='''
void dimk(const int W, const int H, const int *in, int *out) {
  for (int y = 0; y < H; ++y) {
    for (int x = 0; x < W; ++x) {
      out[(x) + (W) * (y)] = in[(x) + (W) * (y)] + 1;
    }
  }
}'''))
    P.append(K('floatk', '''
@kernel void floatk(const int N, const float s, const float *in, float *out) {
  for (int o = 0; o < N; o += 4; @outer) {
    for (int i = 0; i < 4; ++i; @inner) {
      if (o + i < N) {
        out[o + i] = (in[o + i] > s) ? -in[o + i] : s;
      }
    }
  }
}''', [('int', 'N', 0, 4), ('float', 's', -100, 100)], [('float', 'in', 4, 'in'), ('float', 'out', 4, 'out')], feats='float arguments (compare, negate, select; no float arithmetic)', arr_range=(-100, 100)))
    P.append(K('innerseq', '''
@kernel void innerseq(const int N, const int *in, int *out) {
  for (int o = 0; o < 2; ++o; @outer) {
    for (int r = 0; r < 2; ++r) {
      for (int i = 0; i < 2; ++i; @inner) {
        const int k = o * 4 + r * 2 + i;
        if (k < N) out[k] = in[k] + r;
      }
    }
  }
}''', [('int', 'N', 0, A8)], [('int', 'in', A8, 'in'), ('int', 'out', A8, 'out')], feats='@inner loop inside a sequential loop of the @outer body'))
    P.append(K('ifinner', '''
@kernel void ifinner(const int N, const int flag, const int *in, int *out) {
  for (int o = 0; o < 2; ++o; @outer) {
    if (flag > 0) {
      for (int i = 0; i < 4; ++i; @inner) {
        const int k = o * 4 + i;
        if (k < N) out[k] = in[k] + flag;
      }
    } else {
      for (int i = 0; i < 4; ++i; @inner) {
        const int k = o * 4 + i;
        if (k < N) out[k] = -in[k];
      }
    }
  }
}''', [('int', 'N', 0, A8), ('int', 'flag', -2, 2)], [('int', 'in', A8, 'in'), ('int', 'out', A8, 'out')], feats='@inner loops in both branches of an if in the @outer body'))
    P.append(K('shared2d', '''
@kernel void shared2d(const int N, const int *in, int *out) {
  for (int b = 0; b < N; ++b; @outer) {
    @shared int s[2][2];
    for (int y = 0; y < 2; ++y; @inner) {
      for (int x = 0; x < 2; ++x; @inner) {
        s[y][x] = in[b * 4 + y * 2 + x];
      }
    }
    @barrier;
    for (int y = 0; y < 2; ++y; @inner) {
      for (int x = 0; x < 2; ++x; @inner) {
        out[b * 4 + y * 2 + x] = s[x][y];
      }
    }
  }
}''', [('int', 'N', 0, 2)], [('int', 'in', A8, 'in'), ('int', 'out', A8, 'out')], feats='2-D @shared, 2-D @inner, transpose through @barrier'))
    P.append(K('types', '''
@kernel void types(const unsigned int N, const long off, const short *in, long *out) {
  for (unsigned int o = 0; o < N; ++o; @outer) {
    for (int i = 0; i < 2; ++i; @inner) {
      out[o * 2 + i] = (long) in[o * 2 + i] * 3 + off;
    }
  }
}''', [('unsigned int', 'N', 0, 4), ('long', 'off', -1000, 1000)], [('short', 'in', A8, 'in'), ('long', 'out', A8, 'out')], feats='unsigned/long/short argument types, unsigned iterator'))
    P.append(K('simd', '''
@kernel void simd(const int N, const int *in, int *out) {
  for (int o = 0; o < N; o += 2; @outer) {
    for (int i = 0; i < 2; ++i; @inner @simd_length(2)) {
      out[o + i] = in[o + i] ^ 5;
    }
  }
}''', [('int', 'N', 0, A8)], [('int', 'in', A8, 'in'), ('int', 'out', A8, 'out')], assumes=['N % 2 == 0'], feats='@simd_length'))
    P.append(K('outer3', '''
@kernel void outer3(const int A, const int B, const int *in, int *out) {
  for (int z = 0; z < 2; ++z; @outer(2)) {
    for (int y = 0; y < B; ++y; @outer(1)) {
      for (int x = 0; x < A; ++x; @outer(0)) {
        for (int i = 0; i < 1; ++i; @inner(0)) {
          out[z * 4 + y * 2 + x] = in[z * 4 + y * 2 + x] + 100 * z + 10 * y + x;
        }
      }
    }
  }
}''', [('int', 'A', 0, 2), ('int', 'B', 0, 2)], [('int', 'in', A8, 'in'), ('int', 'out', A8, 'out')], feats='three @outer levels with explicit indices', cap=3))
    P.append(K('inner3', '''
@kernel void inner3(const int A, const int *in, int *out) {
  for (int o = 0; o < 1; ++o; @outer) {
    for (int z = 0; z < 2; ++z; @inner(2)) {
      for (int y = 1; y >= 0; --y; @inner(1)) {
        for (int x = 0; x < A; ++x; @inner(0)) {
          out[z * 4 + y * 2 + x] = in[z * 4 + y * 2 + x] - (z * 4 + y * 2 + x);
        }
      }
    }
  }
}''', [('int', 'A', 0, 2)], [('int', 'in', A8, 'in'), ('int', 'out', A8, 'out')], feats='three @inner levels with explicit indices, one descending', cap=3))
    P.append(K('sharedloop', '''
@kernel void sharedloop(const int N, const int *in, int *out) {
  for (int b = 0; b < N; ++b; @outer) {
    @shared int s[2];
    for (int r = 0; r < 2; ++r) {
      for (int t = 0; t < 2; ++t; @inner) {
        s[t] = in[b * 4 + r * 2 + t];
      }
      @barrier;
      for (int t = 0; t < 2; ++t; @inner) {
        out[b * 4 + r * 2 + t] = s[1 - t] + r;
      }
      @barrier;
    }
  }
}''', [('int', 'N', 0, 2)], [('int', 'in', A8, 'in'), ('int', 'out', A8, 'out')], feats='@shared reused across iterations of a sequential loop with @barrier inside the loop'))
    P.append(K('sharedauto', '''
@kernel void sharedauto(const int N, const int *in, int *out) {
  for (int b = 0; b < N; ++b; @outer) {
    @shared int s[2];
    @exclusive int acc;
    for (int t = 0; t < 2; ++t; @inner) {
      acc = 0;
    }
    for (int r = 0; r < 2; ++r) {
      for (int t = 0; t < 2; ++t; @inner) {
        s[t] = in[b * 4 + r * 2 + t];
      }
      for (int t = 0; t < 2; ++t; @inner) {
        acc += (r + 1) * s[1 - t];
      }
    }
    for (int t = 0; t < 2; ++t; @inner) {
      out[b * 2 + t] = acc;
    }
  }
}''', [('int', 'N', 0, 2)], [('int', 'in', A8, 'in'), ('int', 'out', A8, 'out')], feats='@shared tile reloaded in every iteration of a sequential loop WITHOUT explicit @barrier: the barrier after the read-only @inner loop must be inserted by occa',
             ref='''
void sharedauto(const int N, const int *in, int *out) {
  for (int b = 0; b < N; ++b) {
    int acc[2] = {0, 0};
    for (int r = 0; r < 2; ++r) {
      for (int t = 0; t < 2; ++t) {
        acc[t] += (r + 1) * in[b * 4 + r * 2 + (1 - t)];
      }
    }
    for (int t = 0; t < 2; ++t) {
      out[b * 2 + t] = acc[t];
    }
  }
}'''))
    P.append(K('exclstride', '''
@kernel void exclstride(const int N, const int *in, int *out) {
  for (int b = N - 1; b >= 0; --b; @outer) {
    @exclusive int e;
    @exclusive int k;
    for (int t = 6; t >= 0; t -= 2; @inner) {
      k = b * 4 + t / 2;
      e = in[k] + t;
    }
    for (int t = 6; t >= 0; t -= 2; @inner) {
      out[k] = e - t;
    }
  }
}''', [('int', 'N', 0, 2)], [('int', 'in', A8, 'in'), ('int', 'out', A8, 'out')], feats='@exclusive values carried between strided descending @inner loops',
             ref='''
void exclstride(const int N, const int *in, int *out) {
  for (int b = N - 1; b >= 0; --b) {
    int e[4]; int k[4]; int n = 0;
    n = 0; for (int t = 6; t >= 0; t -= 2) { k[n] = b * 4 + t / 2; e[n] = in[k[n]] + t; n++; }
    n = 0; for (int t = 6; t >= 0; t -= 2) { out[k[n]] = e[n] - t; n++; }
  }
}'''))
    P.append(K('excl3d', '''
@kernel void excl3d(const int N, const int *in, int *out) {
  for (int o = 0; o < N; ++o; @outer) {
    @exclusive int e;
    for (int k = 0; k < 2; ++k; @inner) {
      for (int j = 0; j < 2; ++j; @inner) {
        for (int i = 0; i < 2; ++i; @inner) {
          e = 2 * in[(k * 2 + j) * 2 + i] + o;
        }
      }
    }
    for (int k = 0; k < 2; ++k; @inner) {
      for (int j = 0; j < 2; ++j; @inner) {
        for (int i = 0; i < 2; ++i; @inner) {
          out[(k * 2 + j) * 2 + i] = e + 1;
        }
      }
    }
  }
}''', [('int', 'N', 0, 1)], [('int', 'in', A8, 'in'), ('int', 'out', A8, 'out')], feats='@exclusive carried between two three-level @inner nests', cap=3,
             ref='''
void excl3d(const int N, const int *in, int *out) {
  for (int o = 0; o < N; ++o) {
    int e[8];
    for (int k = 0; k < 2; ++k) for (int j = 0; j < 2; ++j) for (int i = 0; i < 2; ++i) e[(k * 2 + j) * 2 + i] = 2 * in[(k * 2 + j) * 2 + i] + o;
    for (int k = 0; k < 2; ++k) for (int j = 0; j < 2; ++j) for (int i = 0; i < 2; ++i) out[(k * 2 + j) * 2 + i] = e[(k * 2 + j) * 2 + i] + 1;
  }
}'''))
    return P


def harness(prog, mode, tr_text, excl=()):
    return O.array_harness(prog, mode, tr_text, excl)


def run(ctx):
    thorough = ctx.tier == 'thorough'
    ctx.level = 'translation_validation'
    progs = corpus(ctx.tier)
    if ctx.only:
        progs = [p for p in progs if re.search(ctx.only, p.name)]
    known = dict(C.load_known('C20'))
    def modes_of(p, cnt=[0]):
        ms = p.only_modes or O.MODES
        if thorough:
            return ms
        cnt[0] += 1; k = cnt[0]
        sel = [('Serial', 'OpenMP')[k % 2], O.LAUNCH_MODES[k % 5], O.LAUNCH_MODES[(k + 2) % 5]]
        return [m for m in sel if m in ms]
    wv = [dict(N=4, W=2, H=2, M=2, s=1, m=1, flag=1, off=1), dict(N=0, W=0, H=0, M=0, s=0, m=0, flag=0, off=0), dict(N=8, W=4, H=2, M=1, s=2, m=-1, flag=-1, off=5), dict(N=2, W=1, H=1, M=2, s=1, m=2, flag=2, off=0)]
    qs, rejected = O.make_queries(ctx, progs, O.MODES, harness, known_keys=list(known), timeout=1500 if thorough else 900, witness_vectors=wv, modes_of=modes_of)
    C.run_queries(ctx, qs)
    ctx.extra['programs'] = len(progs)
    ctx.extra['programs_rejected_by_occa'] = rejected[:40]
    ctx.extra['programs_rejected_count'] = len(rejected)
    ctx.extra['disagreements_checked'] = sum(1 for r in ctx.queries if r.get('status') == 'fail')
    ctx.extra['features'] = {p.name: p.feats for p in progs}
    ctx.samples = [{'program': p.okl, 'desc': p.desc} for p in progs[:2] + progs[6:8]]
    ctx.bounds = {'kernels': '%d corpus kernels: %s' % (len(progs), '; '.join('%s (%s)' % (p.name, p.feats) for p in progs)),
                  'run-time values': 'array elements symbolic (ints in [-50,50], floats unconstrained), arrays of 2-8 elements with exact sizes, scalar arguments symbolic in the listed small ranges, at most 4 iterations per loop level',
                  'backends': 'thorough: all seven per kernel; quick: one loop-keeping and two launch-model backends per kernel (rotating)',
                  'outside': 'kernels outside the corpus, larger sizes, floating-point reassociation, kernels whose iterations are not independent, barriers inside non-uniform control flow'}
    ctx.assumptions += ['launch model: every (block, thread) of the launch runs the device function; barrier kernels run phase by phase with per-thread copies of the variables declared around the barriers (vlib/okl.py phase_transform); atomic builtins are the plain update under this sequential emulation',
                        'CBMC bounds/pointer checks on arrays of exactly the declared sizes decide the out-of-bounds clause']
    if rejected:
        ctx.notes.append('rejected by occa: ' + ', '.join('%s/%s' % (r['program'], r['mode']) for r in rejected[:20]))
    if len(rejected) > len(qs):
        ctx.inconclusive.append('occa rejected most corpus kernels (%d)' % len(rejected))
    return C.finish(ctx)


def replay_query(ctx, meta):
    return O.replay_query(ctx, dict(meta, harness_fn='array_harness'), 'C20')
