"""E2 'emitted code' engine: OKL program -> real `occa translate` (built from /repo's current tree)
-> emitted device/launcher text -> lexical normalisation to C -> CBMC equivalence query against the
sequential reading of the OKL source, over symbolic run-time values.  stdlib only.

Nothing here re-implements an OKL transform: the normaliser only (a) deletes backend decoration,
(b) maps thread-index builtins to harness globals and (c) replaces the kernel-launch call of the
emitted launcher by a bounded grid loop (the documented launch model)."""
import os, re, json, fcntl, time, hashlib, subprocess
from . import common as C

BUILD_DIR = os.environ.get('VERIF_OCCA_BUILD', '/var/tmp/verif-occa-e2')
MODES = ['Serial', 'OpenMP', 'CUDA', 'HIP', 'OpenCL', 'Metal', 'dpcpp']
LAUNCH_MODES = ['CUDA', 'HIP', 'OpenCL', 'Metal', 'dpcpp']


# ------------------------------------------------------------------ build of the real translator
def occa_bin(ctx):
    """(re)build libocca + bin/occa from /repo's working tree (incremental ninja build in a directory
    outside /repo and /verif, serialised by a lock).  Every call runs the build tool, so any edit
    to /repo is compiled in before translating."""
    if getattr(ctx, '_occa_bin', None):
        return ctx._occa_bin
    os.makedirs(BUILD_DIR, exist_ok=True)
    lock = open(os.path.join(BUILD_DIR, '.lock'), 'w')
    t0 = time.time()
    fcntl.flock(lock, fcntl.LOCK_EX)
    try:
        b = os.path.join(BUILD_DIR, 'b')
        stamp = os.path.join(BUILD_DIR, 'repo_path')
        if os.path.exists(stamp) and open(stamp).read() != C.REPO:
            subprocess.call(['rm', '-rf', b])
        cargs = ['-DCMAKE_BUILD_TYPE=Release', '-DCMAKE_CXX_FLAGS=-O1 -DLIBOCCA_OCCA_VERIF', '-DCMAKE_CXX_FLAGS_RELEASE=', '-DOCCA_ENABLE_TESTS=OFF', '-DOCCA_ENABLE_EXAMPLES=OFF',
                 '-DOCCA_ENABLE_OPENMP=ON']       # OpenMP on: C06 needs a real OpenMP device (occa falls back to Serial otherwise)
        cstamp = os.path.join(BUILD_DIR, 'cmake_args')
        if not os.path.exists(os.path.join(b, 'build.ninja')) or not os.path.exists(cstamp) or open(cstamp).read() != ' '.join(cargs):
            rc, o, e, s, _ = C.sh(['cmake', '-S', C.REPO, '-B', b, '-G', 'Ninja'] + cargs, timeout=600)
            if rc != 0:
                raise C.Inconclusive('cmake configure of /repo failed: ' + (o + e)[-2000:])
            open(stamp, 'w').write(C.REPO)
            open(cstamp, 'w').write(' '.join(cargs))
        rc, o, e, s, _ = C.sh(['cmake', '--build', b, '-j%d' % C.NCPU], timeout=3000)
        if rc != 0:
            raise C.Inconclusive('build of /repo failed (the tree does not compile?): ' + (o + e)[-3000:])
    finally:
        fcntl.flock(lock, fcntl.LOCK_UN)
    ctx.extra['occa_build_s'] = round(time.time() - t0, 1)
    ctx._occa_bin = os.path.join(b, 'bin', 'occa')
    ctx._occa_lib = os.path.join(b, 'lib')
    return ctx._occa_bin


def translate(ctx, okl_path, mode, launcher=False, defines=()):
    """run the real translator; returns emitted text, or None when occa rejects the program."""
    exe = occa_bin(ctx)
    env = dict(os.environ)
    env['OCCA_CACHE_DIR'] = ctx.path('occa_cache', 'x')
    env['LD_LIBRARY_PATH'] = ctx._occa_lib + ':' + env.get('LD_LIBRARY_PATH', '')
    env['OCCA_COLOR_ENABLED'] = '0'
    cmd = [exe, 'translate', '-m', mode] + (['-l'] if launcher else [])
    for d in defines:
        cmd += ['-D', d]
    cmd.append(okl_path)
    rc, o, e, s, _ = C.sh(cmd, timeout=120, env=env)
    if rc != 0 or 'Error' in e or 'Error' in o.split('\n')[0]:
        return None, (o + e)
    if not o.strip():
        return None, 'empty output ' + e
    return o, e


# ------------------------------------------------------------------ lexical helpers
def _skip_lit(s, i):
    q = s[i]; i += 1
    while i < len(s) and s[i] != q:
        if s[i] == '\\': i += 1
        i += 1
    return i + 1


def _match(s, i, op='(', cl=')'):
    """s[i]==op; return index just past the matching close."""
    d = 0
    while i < len(s):
        c = s[i]
        if c in '"\'':
            i = _skip_lit(s, i); continue
        if c == op: d += 1
        elif c == cl:
            d -= 1
            if d == 0: return i + 1
        i += 1
    raise ValueError('unbalanced')


def strip_attrs(okl):
    """the sequential reading: delete every @attr and @attr(...); when the attribute was the 4th clause of a for
    header (`for (a; b; c; @outer)`) the `;` in front of it goes too."""
    out = []; i = 0
    while i < len(okl):
        c = okl[i]
        if c in '"\'':
            j = _skip_lit(okl, i); out.append(okl[i:j]); i = j; continue
        if c == '@':
            j = i + 1
            while j < len(okl) and (okl[j].isalnum() or okl[j] == '_'): j += 1
            k = j
            while k < len(okl) and okl[k] in ' \t': k += 1
            if k < len(okl) and okl[k] == '(':
                j = _match(okl, k)
            # for-header clause?  previous non-blank is ';' and next non-blank is ')'
            n = j
            while n < len(okl) and okl[n] in ' \t\n': n += 1
            t = len(out) - 1
            while t >= 0 and out[t] in ' \t\n': t -= 1
            if n < len(okl) and okl[n] == ')' and t >= 0 and out[t] == ';':
                del out[t:]
            i = j; continue
        out.append(c); i += 1
    return ''.join(out)


def _top_level_functions(src):
    """yield (start_of_header, lparen, rparen_end, body_start or None, body_end) for top-level function heads."""
    res = []; i = 0; depth = 0; n = len(src); stmt_start = 0
    while i < n:
        c = src[i]
        if c in '"\'':
            i = _skip_lit(src, i); continue
        if c == '{':
            depth += 1
        elif c == '}':
            depth -= 1
            if depth == 0: stmt_start = i + 1
        elif c == ';' and depth == 0:
            stmt_start = i + 1
        elif c == '(' and depth == 0:
            # attribute parentheses are removed before this is called; this is a parameter list
            e = _match(src, i)
            k = e
            while k < n and src[k] in ' \t\r\n': k += 1
            if k < n and src[k] == '{':
                be = _match(src, k, '{', '}')
                res.append((stmt_start, i, e, k, be)); i = be; stmt_start = be; continue
            elif k < n and src[k] == ';':
                res.append((stmt_start, i, e, None, k + 1)); i = k + 1; stmt_start = i; continue
            i = e; continue
        i += 1
    return res


def _split_params(p):
    out = []; d = 0; cur = ''
    for ch in p:
        if ch in '([<': d += 1
        if ch in ')]>': d -= 1
        if ch == ',' and d == 0:
            out.append(cur.strip()); cur = ''
        else:
            cur += ch
    if cur.strip(): out.append(cur.strip())
    return out


def _param_name(p):
    m = re.search(r'(\w+)\s*(\[[^\]]*\])*\s*$', p)
    return m.group(1)


def _norm_param(p):
    p = re.sub(r'\[\[[^\]]*\]\]', '', p)           # Metal [[buffer(n)]]
    p = re.sub(r'\b(constant|device|threadgroup|__global|__constant|__local|__restrict__|restrict)\b', '', p)
    p = p.replace('&', ' ')
    p = re.sub(r'occa::modeMemory_t\s*\*', 'void *', p)
    return re.sub(r'\s+', ' ', p).strip()


class Unit:
    """normalised C text for one mode + the kernels it defines"""
    def __init__(self):
        self.text = ''; self.kernels = {}   # name -> [param strings]
        self.functions = []


def _clean_common(txt):
    lines = []
    for ln in txt.split('\n'):
        s = ln.strip()
        if s.startswith('#include') or s.startswith('#pragma') or s.startswith('using namespace'):
            if s.startswith('#pragma omp atomic'):
                lines.append('VERIF_ATOMIC_MARK;')
            continue
        lines.append(ln)
    t = '\n'.join(lines)
    t = t.replace('extern "C"', '')
    t = re.sub(r'__attribute__\(\(reqd_work_group_size\([^)]*\)\)\)', '', t)
    t = re.sub(r'__launch_bounds__\([^)]*\)', '', t)
    return t


def _rewrite_functions(t, rename=None, extra_param_filter=None):
    """normalise every top-level function header (parameters), keep bodies verbatim."""
    u = Unit(); out = []; last = 0
    for (hs, lp, rp, bs, be) in _top_level_functions(t):
        head = t[hs:lp]
        params = [_norm_param(p) for p in _split_params(t[lp + 1:rp - 1])]
        params = [p for p in params if p and p != 'void']
        name = re.search(r'(\w+)\s*$', head).group(1)
        if extra_param_filter:
            params = extra_param_filter(name, params)
        head = re.sub(r'\b(__kernel|__global__|__device__|kernel|inline|static)\b', '', head)
        newname = rename(name) if rename else name
        head = re.sub(r'(\w+)\s*$', newname, head.rstrip())
        out.append(t[last:hs]); out.append('\n' + head + '(' + ', '.join(params) + ')')
        if bs is None:
            out.append(';')
        else:
            out.append(' ' + t[bs:be])
            u.functions.append(newname)
            u.kernels[newname] = params
        last = be
    out.append(t[last:])
    u.text = ''.join(out)
    return u


def _dpcpp_unwrap(t):
    """each `void K(sycl::queue * queue_, sycl::nd_range<3> * range_, args) { queue_->submit([&](handler&){ handler_.parallel_for(*range_, [=](sycl::nd_item<3> item_) { BODY }); }); }`
    becomes `void K(args) { BODY }`."""
    out = []; last = 0
    for (hs, lp, rp, bs, be) in _top_level_functions(t):
        if bs is None:
            continue
        body = t[bs:be]
        m = re.search(r'\[=\]\s*\(\s*sycl::nd_item<3>\s+item_\s*\)\s*\{', body)
        if not m:
            continue
        st = m.end() - 1
        en = _match(body, st, '{', '}')
        inner = body[st:en]
        params = _split_params(t[lp + 1:rp - 1])[2:]
        out.append(t[last:hs]); out.append(t[hs:lp] + '(' + ', '.join(params) + ') ' + inner + '\n'); last = be
    out.append(t[last:])
    t = ''.join(out)
    t = t.replace('item_.', 'item__')
    t = re.sub(r'sycl::', 'sycl__', t)
    return t


def normalise_device(txt, mode):
    t = _clean_common(txt)
    if mode == 'dpcpp':
        t = _dpcpp_unwrap(t)
    if mode == 'Metal':
        t = re.sub(r',\s*uint3\s+_occa_group_position\s*\[\[[^\]]*\]\]\s*,\s*uint3\s+_occa_thread_position\s*\[\[[^\]]*\]\]', '', t)
        t = re.sub(r'\[\[[^\]]*\]\]', '', t)
        t = t.replace('_occa_group_position', 'blockIdx').replace('_occa_thread_position', 'threadIdx')
        t = re.sub(r'\bthreadgroup\s+(?!_)', 'VERIF_SHARED ', t)
    if mode == 'dpcpp':
        t = re.sub(r'auto\s*&\s*(\w+)\s*=\s*\*\(sycl__ext::oneapi::group_local_memory_for_overwrite<\s*([\w ]+?)\s*((?:\[[^\]]*\])+)\s*>\(item__get_group\(\)\)\);', r'VERIF_SHARED \2 \1\3;', t)
        t = re.sub(r'sycl__atomic_ref<[^>]*>\(', '(', t)
    t = re.sub(r'\b__shared__\b', 'VERIF_SHARED', t)
    t = re.sub(r'\b__local\b', 'VERIF_SHARED', t)
    t = re.sub(r'\b(__global|__constant|__restrict__|SYCL_EXTERNAL)\b', '', t)
    t, phased = phase_transform(t)
    u = _rewrite_functions(t)
    u.phased = phased
    return u


def normalise_launcher(txt, kname_of=None):
    """emitted launcher -> C: dims become arrays, the launch call becomes LAUNCH_<devicekernel>(outer, inner, args)."""
    t = _clean_common(txt)
    u = _rewrite_functions(t, rename=lambda n: 'launch_' + n, extra_param_filter=lambda n, ps: [p for p in ps if 'deviceKernels' not in p])
    s = u.text
    s = s.replace('occa::dim outer, inner;', 'unsigned long outer[3] = {1, 1, 1}, inner[3] = {1, 1, 1}; int outer_dims, inner_dims;')
    s = re.sub(r'\bouter\.dims\b', 'outer_dims', s)
    s = re.sub(r'\binner\.dims\b', 'inner_dims', s)
    # per launch block: occa::kernel kernel(deviceKernels[K]); kernel.setRunDims(outer, inner); kernel(args);
    out = []; pos = 0
    # find the enclosing launcher function name for each launch
    fn_spans = [(m.start(), m.group(1)) for m in re.finditer(r'\blaunch_(\w+)\s*\(', s)]
    for m in re.finditer(r'occa::kernel kernel\(deviceKernels\[(\d+)\]\);\s*kernel\.setRunDims\(outer, inner\);\s*kernel\(', s):
        fn = [n for (st, n) in fn_spans if st < m.start()][-1]
        out.append(s[pos:m.start()])
        out.append('LAUNCH__occa_%s_%s(outer, inner, outer_dims, inner_dims, ' % (fn, m.group(1)))
        pos = m.end()
    out.append(s[pos:])
    u.text = ''.join(out)
    if 'occa::' in u.text:
        raise ValueError('launcher text not fully normalised: ' + u.text[:2000])
    return u


PRELUDE = r'''
#include "vharness.h"
/* ---- launch-model builtins (harness globals) ---- */
typedef struct { unsigned int x, y, z; } verif_uint3;
typedef verif_uint3 uint3;
verif_uint3 blockIdx, threadIdx, blockDim, gridDim;
#define hipBlockIdx_x blockIdx.x
#define hipThreadIdx_x threadIdx.x
static unsigned long get_group_id(int d) { return d == 0 ? blockIdx.x : d == 1 ? blockIdx.y : blockIdx.z; }
static unsigned long get_local_id(int d) { return d == 0 ? threadIdx.x : d == 1 ? threadIdx.y : threadIdx.z; }
/* DPC++ ranges are (z,y,x): dimension 2 is the fastest (x) */
static unsigned long item__get_group(int d) { return get_group_id(2 - d); }
static unsigned long item__get_local_id(int d) { return get_local_id(2 - d); }
#define VERIF_SHARED static
#define VERIF_ATOMIC_MARK ((void)0)
int launch_overflow, launch_negative;
'''


def launch_fn(kname, params, mode, cap):
    """bounded grid loop for one device kernel: the documented launch model (every block, every thread)."""
    ps = list(params)
    call_args = [_param_name(p) for p in ps]
    decl = ', '.join(['unsigned long *outer', 'unsigned long *inner', 'int od', 'int id'] + ps)
    return '''
static void LAUNCH_%(k)s(%(decl)s) {
  if (outer[0] == 0 || outer[1] == 0 || outer[2] == 0 || inner[0] == 0 || inner[1] == 0 || inner[2] == 0) return;       /* empty grid: nothing runs */
  if ((long) outer[0] < 0 || (long) outer[1] < 0 || (long) outer[2] < 0 || (long) inner[0] < 0 || (long) inner[1] < 0 || (long) inner[2] < 0) launch_negative = 1;   /* a negative count stored into the unsigned occa::dim */
  if (outer[0] > %(cap)d || outer[1] > %(cap)d || outer[2] > %(cap)d || inner[0] > %(cap)d || inner[1] > %(cap)d || inner[2] > %(cap)d) { launch_overflow = 1; return; }
  gridDim.x = outer[0]; gridDim.y = outer[1]; gridDim.z = outer[2]; blockDim.x = inner[0]; blockDim.y = inner[1]; blockDim.z = inner[2];
  for (unsigned bz = 0; bz < outer[2]; bz++) for (unsigned by = 0; by < outer[1]; by++) for (unsigned bx = 0; bx < outer[0]; bx++)
    for (unsigned tz = 0; tz < inner[2]; tz++) for (unsigned ty = 0; ty < inner[1]; ty++) for (unsigned tx = 0; tx < inner[0]; tx++) {
      blockIdx.x = bx; blockIdx.y = by; blockIdx.z = bz; threadIdx.x = tx; threadIdx.y = ty; threadIdx.z = tz;
      %(k)s(%(args)s);
    }
}
''' % dict(k=kname, decl=decl, cap=cap, args=', '.join(call_args))


def rename_block(text, names, prefix):
    """prefix every occurrence of the given identifiers (function names) in a block of C text."""
    for n in sorted(set(names), key=len, reverse=True):
        text = re.sub(r'(?<![\w.>])%s\b' % re.escape(n), prefix + n, text)
    return text


def function_names(c_text):
    return [re.search(r'(\w+)\s*$', c_text[hs:lp]).group(1) for (hs, lp, rp, bs, be) in _top_level_functions(c_text)]


def build_mode_source(ctx, okl_path, okl_text, mode, cap):
    """returns (C text defining tr_<kernel>(...) for every @kernel in the program, info) or (None, why)."""
    if mode in ('Serial', 'OpenMP'):
        txt, err = translate(ctx, okl_path, mode)
        if txt is None:
            return None, err
        t = _clean_common(txt)
        u = _rewrite_functions(t)
        names = list(u.kernels)
        body = rename_block(u.text, names, 'tr_')
        return body, {'emitted': txt, 'functions': names}
    dev, err = translate(ctx, okl_path, mode)
    if dev is None:
        return None, err
    lau, err = translate(ctx, okl_path, mode, launcher=True)
    if lau is None:
        return None, err
    du = normalise_device(dev, mode)
    lu = normalise_launcher(lau)
    parts = [du.text]
    for k, ps in du.kernels.items():
        if re.match(r'_occa_\w+_\d+$', k):
            parts.append(launch_fn_phased(k, ps, cap) if k in du.phased else launch_fn(k, ps, mode, cap))
    ltxt = lu.text
    lnames = [n for n in lu.kernels]
    ltxt = re.sub(r'\blaunch_(\w+)\b', r'tr_\1', ltxt)
    parts.append(ltxt)
    return '\n'.join(parts), {'emitted': dev, 'launcher': lau, 'functions': list(du.kernels) + lnames}


# ------------------------------------------------------------------ harness assembly
class Prog:
    """one generated OKL program: text + how to call it + what to assume about its run-time arguments"""
    def __init__(self, name, okl, kernel, args, refcap, desc='', assumes=(), excl=None, ref=None, cap=6, arrays=None, unwind=None):
        self.name = name; self.okl = okl; self.kernel = kernel
        self.args = args            # [(ctype, name, lo, hi)] scalars; ('int *','out',None,None) for the log pointer
        self.refcap = refcap        # bound on the number of body executions of the sequential reading
        self.desc = desc; self.assumes = list(assumes)
        self.excl = excl or {}      # known-finding key -> C predicate over the arguments (excluded when the key is listed)
        self.ref = ref              # explicit sequential reference (C) when attribute stripping is not the meaning
        self.cap = cap              # bound on each launch dimension
        self.arrays = arrays or []  # [(ctype, name, size, 'in'|'out'|'inout')] for array-mode harnesses
        self.unwind = unwind
        self.excl_post = {}         # known-finding key -> C predicate over harness state after both runs
        self.mid_assumes = []       # assumptions over the reference run's result (placed before the translated code runs)
        self.post_assumes = []
        self.post_asserts = []      # extra C statements (VASSERTs) after the comparison
        self.globals = ''           # extra C declarations for the harness
        self.arr_range = None       # (lo, hi) for symbolic array elements
        self.skip_cmp = {}          # array name -> indices not compared


VISIT = r'''
/* ---- visit counting: the kernel body calls rec(...) once per executed iteration.  The watched tuple (wa,wb,wc)
 * is a symbolic input, so "the watched tuple is visited equally often by both, and the totals agree" for ALL
 * watched tuples is multiset equality of the visited iterator values. ---- */
#define REFCAP %(refcap)d
static long wa, wb, wc; static int nvis[2], nwatch[2]; static int which; static long lastv[2][3]; static int tr_wrapped, ref_negative;
static void rec3(void *out, long a, long b, long c) {
  if (which == 0 && (a < 0 || b < 0)) ref_negative = 1;      /* the sequential loop takes a negative iterator value */
  if (which == 1 && ((a >= (1L << 31) && a < (1L << 32)) || (b >= (1L << 31) && b < (1L << 32)))) tr_wrapped = 1;   /* a value 2^32 too large: 32-bit unsigned index arithmetic zero-extended into a 64-bit iterator */
  if (which == 0) { if (nvis[0] >= REFCAP) { __CPROVER_assume(0); } }        /* stated bound on the sequential trip count */
  else if (nvis[1] >= REFCAP + 1) { if (!(VERIF_EXCL_WRAPPED && tr_wrapped)) { VASSERT(0, "translated code executes more iterations than the sequential loop"); } __CPROVER_assume(0); }
  nvis[which]++; lastv[which][0] = a; lastv[which][1] = b; lastv[which][2] = c;
  if (a == wa && b == wb && c == wc) nwatch[which]++;
}
static void rec(void *out, long a, long b) { rec3(out, a, b, 0); }
'''


def visit_harness(prog, mode, tr_text, active_excl=()):
    a = []
    a.append('/* program %s mode %s : %s */' % (prog.name, mode, prog.desc))
    a.append(PRELUDE)
    wrapped_excl = any(k in prog.excl_post and 'tr_wrapped' in str(prog.excl_post[k]) and (not isinstance(prog.excl_post[k], (list, tuple)) or mode in prog.excl_post[k][1]) for k in active_excl)
    a.append('#define VERIF_EXCL_WRAPPED %d' % (1 if wrapped_excl else 0))
    a.append(VISIT % dict(refcap=prog.refcap))
    a.append(prog.globals)
    ref = prog.ref if prog.ref is not None else strip_attrs(prog.okl)
    names = function_names(ref)
    a.append('/* ---- reference: the OKL source read sequentially ---- */')
    a.append(rename_block(ref, names, 'ref_'))
    a.append('/* ---- translation emitted by occa for mode %s (normalised lexically) ---- */' % mode)
    a.append(tr_text)
    m = ['int main(void) {']
    call = []
    for (ct, nm, lo, hi) in prog.args:
        if '*' in ct:
            call.append(lo if isinstance(lo, str) else '0'); continue
        m.append('  IN(%s, %s);' % (ct, nm))
        if lo is not None:
            m.append('  VASSUME(%s >= %s && %s <= %s);' % (nm, lo, nm, hi))
        call.append(nm)
    m.append('  IN(long, watch_a); IN(long, watch_b); IN(long, watch_c); wa = watch_a; wb = watch_b; wc = watch_c;')
    for s in prog.assumes:
        m.append('  VASSUME(%s);' % s)
    for k in active_excl:
        if k in prog.excl:
            pred = prog.excl[k]
            if isinstance(pred, (list, tuple)):        # (predicate, modes it applies to)
                if mode not in pred[1]:
                    continue
                pred = pred[0]
            m.append('#ifndef WITNESS_NOEXCL\n  VASSUME(!(%s));   /* known finding %s excluded */\n#endif' % (pred, k))
    m.append('  which = 0; ref_%s(%s);' % (prog.kernel, ', '.join(call)))
    for s in prog.mid_assumes:
        m.append('  VASSUME(%s);' % s)
    m.append('  which = 1; tr_%s(%s);' % (prog.kernel, ', '.join(call)))
    for k in active_excl:
        if k in prog.excl_post:
            pred = prog.excl_post[k]
            if isinstance(pred, (list, tuple)):
                if mode not in pred[1]:
                    continue
                pred = pred[0]
            m.append('#ifndef WITNESS_NOEXCL\n  VASSUME(!(%s));   /* known finding %s excluded */\n#endif' % (pred, k))
    for s in prog.post_assumes:
        m.append('  VASSUME(%s);' % s)
    m.append('  OUT(n_ref, nvis[0]); OUT(n_tr, nvis[1]); OUT(w_ref, nwatch[0]); OUT(w_tr, nwatch[1]);')
    m.append('  VASSERT(!launch_overflow, "a launch dimension exceeds the bound although the sequential trip counts are within it");')
    m.append('  VASSERT(nvis[0] == nvis[1], "number of executed iterations equals the sequential trip count");')
    m.append('  VASSERT(nwatch[0] == nwatch[1], "every iterator value is visited exactly as often by the translation as by the sequential loop");')
    for s in prog.post_asserts:
        m.append('  ' + s)
    m.append('  VREACH();')
    m.append('  return 0;')
    m.append('}')
    a.append('\n'.join(m))
    return '\n'.join(a)


def make_queries(ctx, progs, modes, harness_fn, known_keys=(), timeout=120, jobs=None, witness_vectors=None, modes_of=None, suffix=''):
    """translate every program for every mode (parallel), write the harness files, return Query objects.
    A program occa rejects is recorded (not a violation: the property quantifies over programs occa accepts)."""
    from concurrent.futures import ThreadPoolExecutor
    occa_bin(ctx)
    rejected = []; qs = []
    # write every program text BEFORE the worker threads start: two modes of one program run concurrently, and a worker
    # that finds the file existing but still empty would hand occa an empty program ("No [@kernel] functions found")
    for prog in progs:
        d0 = os.path.dirname(ctx.path('prog', prog.name, 'x'))
        op0 = os.path.join(d0, prog.name + '.okl')
        if not os.path.exists(op0):
            with open(op0 + '.tmp', 'w') as f:
                f.write(prog.okl)
            os.replace(op0 + '.tmp', op0)
    def one(pm):
        prog, mode = pm
        d = ctx.path('prog', prog.name, 'x'); d = os.path.dirname(d)
        op = os.path.join(d, prog.name + '.okl')
        try:
            tr, info = build_mode_source(ctx, op, prog.okl, mode, prog.cap)
        except ValueError as ex:
            return ('error', prog, mode, str(ex))
        if tr is None:
            return ('rejected', prog, mode, info)
        for fn in (info.get('functions') or []):
            ctx.functions.add('%s (emitted for %s by occa translate)' % (fn if len(fn) < 40 else fn[:40], mode))
        ctx.units.add('bin/occa translate -m %s (built from %s on this run)' % (mode, C.REPO))
        res = []
        variants = [((), 'pass')]
        act = [k for k in known_keys if k in prog.excl or k in prog.excl_post]
        if act:
            variants = [(tuple(act), 'pass')]
        for excl, expect in variants:
            txt = harness_fn(prog, mode, tr, excl)
            hp = os.path.join(d, '%s_%s%s.c' % (prog.name, mode, suffix))
            open(hp, 'w').write(txt)
            q = C.Query('%s/%s' % (prog.name, mode), None, hp, unwind=prog.unwind or (prog.refcap + 2), timeout=timeout, desc=prog.desc, expect=expect, backend='cadical')
            q.cfiles = [hp]; q.tr_unwind_is_failure = True
            q.meta = {'program': prog.name, 'mode': mode, 'prog': prog_to_meta(prog), 'harness_fn': harness_fn.__name__}
            q.prog = prog; q.mode = mode; q.witness_vectors = witness_vectors
            res.append(q)
        return ('ok', prog, mode, res)
    with ThreadPoolExecutor(max_workers=jobs or C.NCPU) as ex:
        for r in ex.map(one, [(p, m) for p in progs for m in (modes_of(p) if modes_of else modes)]):
            if r[0] == 'ok':
                qs += r[3]
            elif r[0] == 'rejected':
                rejected.append({'program': r[1].name, 'mode': r[2], 'message': r[3][-400:]})
            else:
                ctx.inconclusive.append('normaliser could not handle %s/%s: %s' % (r[1].name, r[2], r[3][:300]))
    return qs, rejected


def prog_to_meta(p):
    def j(v):
        return {a: sorted(b) for a, b in v.items()} if isinstance(v, dict) and v and isinstance(next(iter(v.values())), set) else v
    return {k: j(getattr(p, k)) for k in ('name', 'okl', 'kernel', 'args', 'refcap', 'desc', 'assumes', 'excl', 'ref', 'cap', 'arrays', 'unwind', 'excl_post', 'mid_assumes', 'post_assumes', 'post_asserts', 'globals', 'arr_range', 'skip_cmp')}


def prog_from_meta(m):
    p = Prog(m['name'], m['okl'], m['kernel'], [tuple(a) for a in m['args']], m['refcap'], m.get('desc', ''), m.get('assumes', ()), m.get('excl'), m.get('ref'),
             m.get('cap', 6), [tuple(a) for a in (m.get('arrays') or [])], m.get('unwind'))
    p.excl_post = m.get('excl_post') or {}; p.mid_assumes = m.get('mid_assumes') or []; p.post_assumes = m.get('post_assumes') or []; p.post_asserts = m.get('post_asserts') or []; p.globals = m.get('globals') or ''; p.arr_range = m.get('arr_range'); p.skip_cmp = {k: set(v) for k, v in (m.get('skip_cmp') or {}).items()}
    return p


def replay_query(ctx, meta, pid):
    """regenerate the harness of a stored counterexample from the current tree"""
    prog = prog_from_meta(meta['prog'])
    known = dict(C.load_known(pid))
    fn = globals()[meta.get('harness_fn', 'visit_harness')]
    qs, rej = make_queries(ctx, [prog], [meta['mode']], fn, known_keys=list(known))
    if not qs:
        raise C.Inconclusive('program no longer accepted by occa: %s' % rej)
    return qs[0]


def known_reconfirm(ctx, progs, known, harness_fn, timeout=150):
    """one query per listed finding on the first program it applies to, WITHOUT the exclusion: must still fail
    (then the check prints KNOWN-FINDING); returns the queries (expect='fail')."""
    out = []
    for key, text in known.items():
        for p in sorted(progs, key=lambda pr: 0 if key in getattr(pr, 'reconfirms', ()) else 1):
            mode = None
            if key in p.excl_post:
                pred = p.excl_post[key]
                mode = pred[1][0] if isinstance(pred, (list, tuple)) else 'CUDA'
            elif key in p.excl:
                pred = p.excl[key]
                mode = pred[1][0] if isinstance(pred, (list, tuple)) else 'CUDA'
            if mode is None:
                continue
            kq, _ = make_queries(ctx, [p], [mode], harness_fn, known_keys=[k for k in known if k != key], timeout=timeout, suffix='_known_' + re.sub(r'\W', '_', key))
            for q in kq:
                q.name += '/known:' + key; q.expect = 'fail'; q.known = 'key=%s %s' % (key, text)
            if kq:
                out += kq[:1]
                break
    return out


# ------------------------------------------------------------------ array-mode harness (C15, C20, C21, C23)
def array_harness(prog, mode, tr_text, active_excl=()):
    """reference and translation run on equal symbolic scalars and array contents; every output array must be equal
    element by element.  Arrays are C objects of exactly the declared size, so CBMC's bounds/pointer checks decide
    'no read or write outside the arrays'."""
    a = ['/* program %s mode %s : %s */' % (prog.name, mode, prog.desc), PRELUDE, prog.globals]
    ref = prog.ref if prog.ref is not None else strip_attrs(prog.okl)
    names = function_names(ref)
    a.append('/* ---- reference: the OKL source read sequentially ---- */')
    a.append(rename_block(ref, names, 'ref_'))
    a.append('/* ---- translation emitted by occa for mode %s (normalised lexically) ---- */' % mode)
    a.append(tr_text)
    m = ['int main(void) {']
    arr = {n: (ct, sz, d) for (ct, n, sz, d) in prog.arrays}
    call_r = []; call_t = []
    for (ct, nm, lo, hi) in prog.args:
        if '*' in ct:
            if nm in arr:
                ect, sz, d = arr[nm]
                if d == 'in':
                    m.append('  %s %s_in[%d];' % (ect, nm, sz))
                    for i in range(sz):
                        m.append('  { %s; %s_in[%d] = %s_%d;%s }' % (
                            ('IN_F32(%s_%d)' % (nm, i)) if ect == 'float' else ('IN_F64(%s_%d)' % (nm, i)) if ect == 'double' else ('IN(%s, %s_%d)' % (ect, nm, i)), nm, i, nm, i,
                            (' VASSUME(%s_%d >= %s && %s_%d <= %s);' % (nm, i, prog.arr_range[0], nm, i, prog.arr_range[1])) if prog.arr_range else ''))
                    call_r.append(nm + '_in'); call_t.append(nm + '_in')
                    continue
                m.append('  %s %s_ref[%d], %s_tr[%d];' % (ect, nm, sz, nm, sz))
                for i in range(sz):
                    m.append('  { %s; %s_ref[%d] = %s_%d; %s_tr[%d] = %s_%d;%s }' % (
                        ('IN_F32(%s_%d)' % (nm, i)) if ect == 'float' else ('IN_F64(%s_%d)' % (nm, i)) if ect == 'double' else ('IN(%s, %s_%d)' % (ect, nm, i)), nm, i, nm, i, nm, i, nm, i,
                        (' VASSUME(%s_%d >= %s && %s_%d <= %s);' % (nm, i, prog.arr_range[0], nm, i, prog.arr_range[1])) if prog.arr_range else ''))
                call_r.append(nm + '_ref'); call_t.append(nm + '_tr')
            else:
                call_r.append('0'); call_t.append('0')
            continue
        m.append('  IN_F32(%s);' % nm if ct == 'float' else '  IN_F64(%s);' % nm if ct == 'double' else '  IN(%s, %s);' % (ct, nm))
        if lo is not None:
            m.append('  VASSUME(%s >= %s && %s <= %s);' % (nm, lo, nm, hi))
        call_r.append(nm); call_t.append(nm)
    for s in prog.assumes:
        m.append('  VASSUME(%s);' % s)
    for k in active_excl:
        if k in prog.excl:
            pred = prog.excl[k]
            if isinstance(pred, (list, tuple)):
                if mode not in pred[1]:
                    continue
                pred = pred[0]
            m.append('#ifndef WITNESS_NOEXCL\n  VASSUME(!(%s));   /* known finding %s excluded */\n#endif' % (pred, k))
    m.append('  ref_%s(%s);' % (prog.kernel, ', '.join(call_r)))
    m.append('  tr_%s(%s);' % (prog.kernel, ', '.join(call_t)))
    m.append('  VASSERT(!launch_overflow, "a launch dimension exceeds the bound");')
    for (ct, nm, sz, d) in prog.arrays:
        if d == 'in':
            continue
        for i in range(sz):
            if i in prog.skip_cmp.get(nm, ()):
                continue
            m.append('  OUTI(%s_ref, %d, %s_ref[%d]); OUTI(%s_tr, %d, %s_tr[%d]);' % (nm, i, nm, i, nm, i, nm, i))
            m.append('  VASSERT(%s_ref[%d] == %s_tr[%d], "%s[%d]: the translated kernel leaves what the sequential reading of the OKL kernel leaves");' % (nm, i, nm, i, nm, i))
    for s in prog.post_asserts:
        m.append('  ' + s)
    m += ['  VREACH();', '  return 0;', '}']
    a.append('\n'.join(m))
    return '\n'.join(a)


# ------------------------------------------------------------------ barrier emulation (phase execution)
class Unsupported(Exception):
    pass


BARRIER_RE = re.compile(r'\b(__syncthreads\s*\(\s*\)|barrier\s*\([^;]*?\)|threadgroup_barrier\s*\([^;]*?\)|item__barrier\s*\([^;]*?\))\s*;')
VERIF_NT = 8
PHASE_PRELUDE = r'''
#define VERIF_NT %d
static unsigned verif_tid;
static int verif_set_thread(unsigned x, unsigned y, unsigned z) { threadIdx.x = x; threadIdx.y = y; threadIdx.z = z; verif_tid = x + blockDim.x * (y + blockDim.y * z); return 1; }
#define VERIF_FOR_THREADS for (unsigned tz_ = 0; tz_ < blockDim.z; tz_++) for (unsigned ty_ = 0; ty_ < blockDim.y; ty_++) for (unsigned tx_ = 0; tx_ < blockDim.x; tx_++) if (verif_set_thread(tx_, ty_, tz_))
/* atomics: under the sequential emulation an atomic update is the plain update */
#define atomicAdd(p, v) (*(p) += (v))
#define atomicSub(p, v) (*(p) -= (v))
#define atomicAnd(p, v) (*(p) &= (v))
#define atomicOr(p, v) (*(p) |= (v))
#define atomicXor(p, v) (*(p) ^= (v))
#define atomicInc(p) ((*(p))++)
#define atomicDec(p) ((*(p))--)
''' % VERIF_NT


def _stmt_end(s, i):
    """index just past the statement starting at s[i] (s[i] not blank)"""
    n = len(s)
    m = re.match(r'(for|while|if|switch)\b', s[i:])
    if m:
        j = s.index('(', i)
        e = _match(s, j)
        k = e
        while k < n and s[k] in ' \t\r\n': k += 1
        e2 = _stmt_end(s, k)
        if m.group(1) == 'if':
            k2 = e2
            while k2 < n and s[k2] in ' \t\r\n': k2 += 1
            if s.startswith('else', k2) and not (s[k2 + 4:k2 + 5].isalnum() or s[k2 + 4:k2 + 5] == '_'):
                k3 = k2 + 4
                while k3 < n and s[k3] in ' \t\r\n': k3 += 1
                return _stmt_end(s, k3)
        return e2
    if s[i] == '{':
        return _match(s, i, '{', '}')
    if s[i] == '#':          # preprocessor line
        e = s.find('\n', i)
        return n if e < 0 else e + 1
    d = 0
    while i < n:
        c = s[i]
        if c in '"\'':
            i = _skip_lit(s, i); continue
        if c in '([{': d += 1
        elif c in ')]}': d -= 1
        elif c == ';' and d == 0:
            return i + 1
        i += 1
    return n


def _split_statements(body):
    out = []; i = 0; n = len(body)
    while i < n:
        while i < n and body[i] in ' \t\r\n': i += 1
        if i >= n: break
        e = _stmt_end(body, i)
        out.append(body[i:e].strip()); i = e
    return out


DECL_RE = re.compile(r'^(?:const\s+)?((?:(?:unsigned|signed|long|short)\s+)*(?:int|long|float|double|char|short|size_t|bool|unsigned))\s+([^;]*);$', re.S)


def _parse_decl(st):
    """[(ctype, name, dims, init)] for a simple declaration statement, else None"""
    m = DECL_RE.match(st)
    if not m:
        return None
    ty = m.group(1); res = []
    for d in _split_params(m.group(2)):
        dm = re.match(r'^(\**)\s*(\w+)\s*((?:\[[^\]]*\])*)\s*(?:=\s*(.*))?$', d.strip(), re.S)
        if not dm:
            return None
        res.append((ty + ' ' + dm.group(1), dm.group(2), dm.group(3) or '', dm.group(4)))
    return res


def _unroll_barrier_loops(stmts):
    """a sequential loop with literal bounds (at most 4 iterations) whose body contains a barrier is unrolled into its parent
    statement list: the end of one iteration and the start of the next belong to the SAME phase unless a barrier separates
    them, which the loop form of the emulation (one thread loop per segment of the body) cannot express - it would put an
    implicit barrier at the back edge and hide a missing one.  Loops with run-time bounds keep the loop form (stated bound)."""
    out = []
    for st in stmts:
        m = re.match(r'for\s*\(\s*int\s+(\w+)\s*=\s*(-?\d+)\s*;\s*\1\s*<\s*(-?\d+)\s*;\s*(?:\+\+\s*\1|\1\s*\+\+|\1\s*\+=\s*1)\s*\)', st) if 'VERIF_BARRIER' in st else None
        if m:
            v, lo, hi = m.group(1), int(m.group(2)), int(m.group(3))
            body = st[m.end():].strip()
            if 0 < hi - lo <= 4 and body.startswith('{') and _match(body, 0, '{', '}') == len(body) and not re.search(r'\b(break|continue)\b', body) \
                    and not re.search(r'(?<![\w.])%s\s*(=(?!=)|\+=|-=|\+\+|--)|(\+\+|--)\s*%s\b' % (re.escape(v), re.escape(v)), body):
                inner = _split_statements(body[1:-1])
                for k in range(lo, hi):
                    out += _unroll_barrier_loops([re.sub(r'(?<![\w.>])%s\b' % re.escape(v), '(%d)' % k, x) for x in inner])
                continue
        out.append(st)
    return out


def _phase_block(stmts, hoisted, shared):
    out = []; seg = []
    stmts = _unroll_barrier_loops(stmts)
    def flush():
        if seg:
            out.append('VERIF_FOR_THREADS {\n' + '\n'.join(seg) + '\n}')
            del seg[:]
    for st in stmts:
        if st == 'VERIF_BARRIER;' or st == ';':
            if st != ';': flush()
            continue
        if 'VERIF_BARRIER' in st:
            flush()
            if st.startswith('{'):
                out.append(_phase_block(_split_statements(st[1:-1]), hoisted, shared))
                continue
            m = re.match(r'(for|while|if)\b', st)
            if m:
                j = st.index('(')
                e = _match(st, j)
                body = st[e:].strip()
                if body.startswith('{') and _match(body, 0, '{', '}') == len(body):
                    # control flow around a barrier must be uniform over the threads of a block (the launch model requires it)
                    out.append(st[:e] + ' {\n' + _phase_block(_split_statements(body[1:-1]), hoisted, shared) + '\n}')
                    continue
            raise Unsupported('barrier inside an unsupported statement form: ' + st[:80])
        if st.startswith('VERIF_SHARED'):
            shared.append(st); continue
        d = _parse_decl(st)
        if d:
            for (ty, nm, dims, init) in d:
                hoisted.append((ty, nm, dims))
                if init is not None:
                    seg.append('%s = %s;' % (nm, init))
        else:
            seg.append(st)
    flush()
    return '\n'.join(out)


def phase_transform(text):
    """device kernels that contain barriers are rewritten so that every code segment between two barriers runs for all
    threads of the block before the next one starts; variables declared around the barriers become one copy per thread.
    Returns (text, set of kernel names that now run once per block)."""
    text = BARRIER_RE.sub('VERIF_BARRIER;', text)
    phased = set(); out = []; last = 0
    for (hs, lp, rp, bs, be) in _top_level_functions(text):
        if bs is None or 'VERIF_BARRIER' not in text[bs:be]:
            continue
        name = re.search(r'(\w+)\s*$', text[hs:lp]).group(1)
        hoisted = []; shared = []
        body = _phase_block(_split_statements(text[bs + 1:be - 1]), hoisted, shared)
        pre = list(shared)
        uniq = []
        for h in hoisted:
            if h[1] not in [u[1] for u in uniq]:
                uniq.append(h)       # the copies of an unrolled loop body declare the same variables again
        hoisted = uniq
        for (ty, nm, dims) in hoisted:
            pre.append('static %s %s_pt[VERIF_NT]%s;\n#define %s %s_pt[verif_tid]' % (ty.replace('const ', ''), nm, dims, nm, nm))
        post = ['#undef %s' % nm for (_, nm, _) in hoisted]
        out.append(text[last:bs]); out.append('{\n' + '\n'.join(pre) + '\n' + body + '\n' + '\n'.join(post) + '\n}\n'); last = be
        phased.add(name)
    out.append(text[last:])
    return ''.join(out), phased


def launch_fn_phased(kname, params, cap):
    ps = list(params)
    call_args = [_param_name(p) for p in ps]
    decl = ', '.join(['unsigned long *outer', 'unsigned long *inner', 'int od', 'int id'] + ps)
    return '''
static void LAUNCH_%(k)s(%(decl)s) {
  if (outer[0] == 0 || outer[1] == 0 || outer[2] == 0 || inner[0] == 0 || inner[1] == 0 || inner[2] == 0) return;
  if ((long) outer[0] < 0 || (long) outer[1] < 0 || (long) outer[2] < 0 || (long) inner[0] < 0 || (long) inner[1] < 0 || (long) inner[2] < 0) launch_negative = 1;
  if (outer[0] > %(cap)d || outer[1] > %(cap)d || outer[2] > %(cap)d || inner[0] > %(cap)d || inner[1] > %(cap)d || inner[2] > %(cap)d || inner[0] * inner[1] * inner[2] > VERIF_NT) { launch_overflow = 1; return; }
  gridDim.x = outer[0]; gridDim.y = outer[1]; gridDim.z = outer[2]; blockDim.x = inner[0]; blockDim.y = inner[1]; blockDim.z = inner[2];
  for (unsigned bz = 0; bz < outer[2]; bz++) for (unsigned by = 0; by < outer[1]; by++) for (unsigned bx = 0; bx < outer[0]; bx++) {
    blockIdx.x = bx; blockIdx.y = by; blockIdx.z = bz;
    %(k)s(%(args)s);      /* the phased kernel loops over the threads of the block itself */
  }
}
''' % dict(k=kname, decl=decl, cap=cap, args=', '.join(call_args))


PRELUDE = PRELUDE + PHASE_PRELUDE


# ------------------------------------------------------------------ OpenMP race instrumentation (C21)
RACE_PRELUDE = r'''
/* ---- two-iteration non-interference: every access through a tracked pointer inside a `#pragma omp parallel for` loop is
 * reported; the watched address is a symbolic input, so the final assertion covers every location. ---- */
#define VERIF_MAXIT 6
static char *verif_watch; static int verif_in_par, verif_cur, verif_niter, verif_atomic;
static int hit_plain[VERIF_MAXIT], hit_atomic[VERIF_MAXIT];
static char *verif_acc(char *addr) {
  if (verif_in_par && addr == verif_watch && verif_cur >= 0 && verif_cur < VERIF_MAXIT) { if (verif_atomic > 0) hit_atomic[verif_cur] = 1; else hit_plain[verif_cur] = 1; }
  return addr;
}
#define VACC(p, i) ((__typeof__(&(p)[0])) verif_acc((char *) &(p)[i]))
static int verif_watch_local = -1; static long verif_watch_local_idx;
static int verif_acc_local(int id, long idx) {
  if (verif_in_par && id == verif_watch_local && idx == verif_watch_local_idx && verif_cur >= 0 && verif_cur < VERIF_MAXIT) { if (verif_atomic > 0) hit_atomic[verif_cur] = 1; else hit_plain[verif_cur] = 1; }
  return 0;
}
/* variables declared in the kernel function OUTSIDE the parallel loop are shared by all threads: accesses are reported by (id, index) */
#define VACCL(name, id, i) (&(name)[verif_acc_local(id, (long) (i)) + (i)])
#define VACCS(name, id) (*(verif_acc_local(id, 0) ? &(name) : &(name)))
static void verif_region_begin(void) { verif_in_par = 1; verif_niter = 0; for (int k = 0; k < VERIF_MAXIT; k++) { hit_plain[k] = 0; hit_atomic[k] = 0; } }
static void verif_iter_begin(void) { verif_cur = verif_niter; verif_niter++; VASSUME(verif_niter <= VERIF_MAXIT); }
static void verif_region_end(void) {
  for (int a = 0; a < VERIF_MAXIT; a++) for (int b = 0; b < VERIF_MAXIT; b++) if (a != b) {
    VASSERT(!(hit_plain[a] && (hit_plain[b] || hit_atomic[b])), "data race: two iterations of an OpenMP parallel loop touch the same location and at least one access is neither atomic nor critical");
  }
  verif_in_par = 0;
}
'''


def race_instrument(omp_text):
    """normalised C text of the OpenMP translation with access reporting; returns (text, info)"""
    lines = []
    info = {'parallel_loops': 0, 'atomic': 0, 'critical': 0, 'tracked': [], 'locals': []}
    for ln in omp_text.split('\n'):
        s = ln.strip()
        if s.startswith('#pragma omp parallel for'):
            lines.append('VERIF_PAR_NEXT;'); info['parallel_loops'] += 1; continue
        if s.startswith('#pragma omp atomic'):
            lines.append('VERIF_ATOMIC_NEXT;'); info['atomic'] += 1; continue
        if s.startswith('#pragma omp critical'):
            lines.append('VERIF_ATOMIC_NEXT;'); info['critical'] += 1; continue
        if s.startswith('#pragma omp'):
            raise Unsupported('unknown OpenMP pragma: ' + s)
        if s.startswith('#include') or s.startswith('#pragma') or s.startswith('using namespace'):
            continue
        lines.append(ln)
    t = '\n'.join(lines).replace('extern "C"', '')
    # wrap the statement after each marker
    while True:
        m = re.search(r'VERIF_(ATOMIC|PAR)_NEXT;', t)
        if not m:
            break
        i = m.end()
        while t[i] in ' \t\r\n': i += 1
        e = _stmt_end(t, i)
        st = t[i:e]
        if m.group(1) == 'ATOMIC':
            rep = '{ verif_atomic++; %s verif_atomic--; }' % st
        else:
            if not st.startswith('for'):
                raise Unsupported('parallel pragma not followed by a for loop')
            j = st.index('('); he = _match(st, j)
            body = st[he:].strip()
            if not body.startswith('{'):
                body = '{ ' + body + ' }'
            rep = '{ verif_region_begin(); %s { verif_iter_begin(); %s } verif_region_end(); }' % (st[:he], body)
        t = t[:m.start()] + rep + t[e:]
    # tracked names per function: non-const pointer parameters, pointer locals, arrays/pointers declared in the function
    # body outside any parallel loop
    out = []; last = 0
    for (hs, lp, rp, bs, be) in _top_level_functions(t):
        if bs is None:
            continue
        params = [_norm_param(p) for p in _split_params(t[lp + 1:rp - 1])]
        tracked = set()
        for p in params:
            if '*' in p and not re.match(r'\s*const\b', p):
                tracked.add(_param_name(p))
        body = t[bs:be]
        for dm in re.finditer(r'(?<![\w])(?:const\s+)?(?:unsigned\s+|long\s+|short\s+)*(?:int|long|float|double|char|short)\s*\*\s*(?:const\s+)?(\w+)\s*(?:=|;)', body):
            tracked.add(dm.group(1))
        # a block-scope `static` declared inside a parallel loop is ONE object shared by all threads: hoist it to function
        # scope (same lifetime for one kernel call), where it is tracked like every other shared local
        first = body.find('verif_region_begin')
        if first >= 0:
            hoisted = []
            def _hoist(mm):
                hoisted.append(mm.group(2)); return mm.group(1)
            region0 = re.sub(r'(\n[ \t]*)static\s+((?:const\s+)?(?:unsigned\s+|long\s+|short\s+)*(?:int|long|float|double|char|short)\b[^;\n]*;)', _hoist, body[first:])
            if hoisted:
                info.setdefault('static_in_parallel_loop', []).extend(hoisted)
                body = body[:1] + '\n' + '\n'.join(hoisted) + body[1:first] + region0
        # function-scope declarations before the first parallel region: shared by all threads
        first = body.find('verif_region_begin')
        head = body[:first if first >= 0 else 0]
        larr = []; lsca = []
        for st in [l.strip() for l in head[1:].split('\n')]:
            d = _parse_decl(st)
            if not d or st.startswith('const'):
                continue
            for (ty, nm, dims, init) in d:
                (larr if dims else lsca).append(nm)
        nb = body
        for name in sorted(tracked, key=len, reverse=True):
            # name[EXPR] -> (*VACC(name, EXPR))   (innermost-first is not needed: EXPR is re-scanned because we restart)
            pos = 0
            while True:
                mm = re.compile(r'(?<![\w.>])%s\s*\[' % re.escape(name)).search(nb, pos)
                if not mm:
                    break
                # skip the declaration itself `T name[4];`
                pre = nb[:mm.start()].rstrip()
                if re.search(r'\b(int|long|float|double|char|short|unsigned)\s*\**$', pre):
                    pos = mm.end(); continue
                lb = mm.end() - 1
                rb = _match(nb, lb, '[', ']')
                rep = '(*VACC(%s, %s))' % (name, nb[lb + 1:rb - 1])
                nb = nb[:mm.start()] + rep + nb[rb:]
                pos = mm.start() + len('(*VACC(%s, ' % name)
            # *name (dereference) -> (*VACC(name, 0))
            pos = 0
            while True:
                mm = re.compile(r'\*\s*%s\b(?!\s*[\[(])' % re.escape(name)).search(nb, pos)
                if not mm:
                    break
                pre = nb[:mm.start()].rstrip()
                if pre and (pre[-1].isalnum() or pre[-1] in '_)]') or re.search(r'\b(int|long|float|double|char|short|unsigned|const)$', pre):
                    pos = mm.end(); continue       # multiplication or a declaration
                nb = nb[:mm.start()] + '(*VACC(%s, 0))' % name + nb[mm.end():]
                pos = mm.start() + 8
        if first >= 0 and (larr or lsca):
            region = nb[first:]
            for nm in larr:
                lid = len(info['locals']); info['locals'].append(nm)
                pos = 0
                while True:
                    mm = re.compile(r'(?<![\w.>])%s\s*\[' % re.escape(nm)).search(region, pos)
                    if not mm:
                        break
                    lb = mm.end() - 1; rb = _match(region, lb, '[', ']')
                    rep = '(*VACCL(%s, %d, %s))' % (nm, lid, region[lb + 1:rb - 1])
                    region = region[:mm.start()] + rep + region[rb:]
                    pos = mm.start() + len('(*VACCL(%s, %d, ' % (nm, lid))
            for nm in lsca:
                lid = len(info['locals']); info['locals'].append(nm)
                region = re.sub(r'(?<![\w.>])%s\b(?!\s*\()' % re.escape(nm), 'VACCS(%s, %d)' % (nm, lid), region)
            nb = nb[:first] + region
        info['tracked'] += sorted(tracked)
        out.append(t[last:bs]); out.append(nb); last = be
    out.append(t[last:])
    t = ''.join(out)
    u = _rewrite_functions(t)
    return rename_block(u.text, list(u.kernels), 'tr_'), info


def race_harness(prog, mode, tr_text, active_excl=()):
    a = ['/* program %s: OpenMP translation, race instrumentation : %s */' % (prog.name, prog.desc), PRELUDE, RACE_PRELUDE, prog.globals, tr_text]
    m = ['int main(void) {']
    arr = {n: (ct, sz, d) for (ct, n, sz, d) in prog.arrays}
    call = []
    for (ct, nm, lo, hi) in prog.args:
        if '*' in ct:
            if nm in arr:
                ect, sz, d = arr[nm]
                m.append('  %s %s_a[%d];' % (ect, nm, sz))
                for i in range(sz):
                    m.append('  { %s; %s_a[%d] = %s_%d;%s }' % (
                        ('IN_F32(%s_%d)' % (nm, i)) if ect == 'float' else ('IN(%s, %s_%d)' % (ect, nm, i)), nm, i, nm, i,
                        (' VASSUME(%s_%d >= %s && %s_%d <= %s);' % (nm, i, prog.arr_range[0], nm, i, prog.arr_range[1])) if prog.arr_range else ''))
                call.append(nm + '_a')
            else:
                call.append('0')
            continue
        m.append('  IN_F32(%s);' % nm if ct == 'float' else '  IN(%s, %s);' % (ct, nm))
        if lo is not None:
            m.append('  VASSUME(%s >= %s && %s <= %s);' % (nm, lo, nm, hi))
        call.append(nm)
    for s in prog.assumes:
        m.append('  VASSUME(%s);' % s)
    # the watched location: any element of any array the kernel receives
    m.append('  IN(int, watch_arr); IN(int, watch_idx);')
    k = 0
    for (ct, nm, sz, d) in prog.arrays:
        m.append('  if (watch_arr == %d) { VASSUME(watch_idx >= 0 && watch_idx < %d); verif_watch = (char *) &%s_a[watch_idx]; }' % (k, sz, nm)); k += 1
    m.append('  if (watch_arr >= %d) { verif_watch_local = watch_arr - %d; verif_watch_local_idx = watch_idx; }   /* a variable of the kernel function declared outside the parallel loop */' % (k, k))
    m.append('  VASSUME(watch_arr >= 0 && watch_arr < %d + 4);' % k)
    m.append('  tr_%s(%s);' % (prog.kernel, ', '.join(call)))
    m += ['  VREACH();', '  return 0;', '}']
    a.append('\n'.join(m))
    return '\n'.join(a)
