/* Request validation of occa::memory against a byte-array model (mathematical integers, no wrap-around):
 * a request is in range  <=>  it returns normally and EXACTLY that byte range reaches the backend;
 * otherwise occa::exception is raised and NOTHING reaches the backend (no memory can have been modified); never a crash.
 * OP: 0 copyFrom(ptr) 1 copyTo(ptr) 2 copyFrom(memory) 3 copyTo(memory) 4 slice.  D0/D1: element sizes (enumerated). */
#include "vharness.h"
#include "C02_roots.h"
typedef __int128 I;
int main(void) {
  IN(long, base0); IN(long, size0); IN(long, base1); IN(long, size1); IN(int, init1);
  IN(long, count); IN(long, off); IN(long, off2);
  VASSUME(base0 >= 0 && base0 <= 16 && size0 >= 0 && size0 <= 32 && size0 % D0 == 0);
  VASSUME(base1 >= 0 && base1 <= 16 && size1 >= 0 && size1 <= 32 && size1 % D1 == 0);
  VASSUME(init1 == 0 || init1 == 1);
#ifdef INIT1
  VASSUME(init1 == INIT1);
#endif
  m_setup(64, base0, size0, D0, init1, base1, size1, D1);
  I L0 = size0 / D0;
  int r; long nsz = -1, noff = -1; int ninit = -1;
  int valid; I ebytes = 0, eoff = 0, eoff2 = 0; int ekind = 0;
#if OP == 0 || OP == 1
  { I n = (count == -1) ? L0 : (I) count;
    valid = count >= -1 && off >= 0 && ((I) off + n) * D0 <= (I) size0;
    ebytes = n * D0; eoff = (I) off * D0; ekind = (OP == 0) ? 2 : 1; }
  r = (OP == 0) ? m_copy_from_ptr(count, off) : m_copy_to_ptr(count, off);
#elif OP == 2 || OP == 3
  { I n = (count == -1) ? L0 : (I) count;
    /* OP 2: this(0) <- src(1): dest offset off (elements of 0), src offset off2 (elements of 1).  OP 3: this(0) -> dest(1) */
    I thisoff = (OP == 2) ? (I) off : (I) off2, otheroff = (OP == 2) ? (I) off2 : (I) off;
    valid = init1 && count >= -1 && off >= 0 && off2 >= 0 && (thisoff + n) * D0 <= (I) size0 && otheroff * D1 + n * D0 <= (I) size1;
    ebytes = n * D0; eoff = (I) off * ((OP == 2) ? D0 : D1); eoff2 = (I) off2 * ((OP == 2) ? D1 : D0); ekind = 3; }
  r = (OP == 2) ? m_copy_from_mem(count, off, off2) : m_copy_to_mem(count, off, off2);
#else
  { I n = (count == -1) ? L0 - (I) off : (I) count;
    valid = off >= 0 && count >= -1 && n >= 0 && (I) off + n <= L0;
    ebytes = n * D0; eoff = (I) base0 + (I) off * D0; ekind = 4; }
  r = m_slice(off, count, (char *) &nsz, (char *) &noff, (char *) &ninit);
#endif
  OUT(r, r); OUT(valid, valid); OUT(calls, m_calls()); OUT(bytes, m_bytes()); OUT(o1, m_off());
  if (valid) {
    VASSERT(r == 0, "an in-range request succeeds");
    VASSERT(m_calls() == 1 && m_kind() == ekind, "exactly one backend operation of the requested kind");
    VASSERT((I) m_bytes() == ebytes, "the backend is asked for exactly the requested number of bytes");
    VASSERT((I) m_off() == eoff, "... at exactly the requested byte offset");
#if OP == 2 || OP == 3
    VASSERT((I) m_off2() == eoff2, "... and the requested source offset");
#endif
#if OP == 4
    VASSERT(ninit == 1 && (I) nsz == ebytes && (I) noff == eoff, "the slice aliases exactly the requested bytes of its parent");
#endif
  } else {
    VASSERT(r == 1, "an out-of-range, negative or uninitialised request raises occa::exception");
    VASSERT(m_calls() == 0, "... and nothing reaches the backend (no memory is modified)");
  }
  VREACH();
  return 0;
}
