"""Shared machinery of C03 (reservations never overlap and keep their contents) and C04 (accounting matches the live
reservations): bounded histories on the real memory-pool code (E1).  Every history SHAPE (which operations, which handles)
is concrete and enumerated; request sizes, slice windows, resize targets and the byte contents are symbolic.  After every
operation the harness re-checks the whole invariant against a reference model kept in plain C."""
import os, re
from vlib import common as C
from vlib.common import Query
H = os.path.join(C.VERIF, 'harness', 'C03')
ROOTS = ['p_init', 'p_reserve', 'p_slice', 'p_release', 'p_resize', 'p_shrink', 'p_set_alignment', 'p_off', 'p_size', 'p_ptr', 'p_pool_size', 'p_pool_reserved',
         'p_pool_nres', 'p_pool_alignment', 'p_pool_ptr', 'p_pool_buffer_size', 'p_dev_bytes', 'p_arena_overflow', 'b_ring_empty', 'b_dtor_tail']
AL = 4          # initial alignment (set on the empty pool)
SMAX = 9        # request sizes 1..SMAX bytes
NH = 6

PRE = r'''
#include "vharness.h"
#include "C03_roots.h"
#define NH %(nh)d
#define SMAX %(smax)d
static int live[NH], isslice[NH], parent[NH]; static long soff[NH];
static char shadow[NH][SMAX]; static long hsize[NH];
static int nlive = 0;
static long ru(long x, long a) { return ((x + a - 1) / a) * a; }
static void check_all(const char *when) {
  long al = p_pool_alignment(), psize = p_pool_size();
  char *pp = p_pool_ptr();
  int cnt = 0;
  for (int i = 0; i < NH; i++) if (live[i]) {
    cnt++;
    long o = p_off(i), s = p_size(i);
#ifdef CHECK_C03
    VASSERT(s == hsize[i], "a live reservation keeps its size");
    VASSERT(o >= 0 && o + s <= psize && psize <= p_pool_buffer_size(), "a live reservation lies inside the pool buffer");
    VASSERT(p_ptr(i) == pp + o, "the pointer of a live reservation is buffer + offset");
    if (isslice[i] && live[parent[i]]) VASSERT(p_ptr(i) == p_ptr(parent[i]) + soff[i], "a slice aliases its parent at the slice offset");
    for (int j = i + 1; j < NH; j++) if (live[j]) {
      int related = (isslice[i] && parent[i] == j) || (isslice[j] && parent[j] == i) || (isslice[i] && isslice[j] && parent[i] == parent[j]);
      if (!related) { long oj = p_off(j), sj = p_size(j); VASSERT(o + s <= oj || oj + sj <= o, "two live reservations occupy disjoint byte ranges"); }
    }
    if (!isslice[i]) for (int k = 0; k < SMAX; k++) if (k < s) VASSERT(p_ptr(i)[k] == shadow[i][k], "a live reservation reads back the bytes last written to it");
#endif
  }
#ifdef CHECK_C04
  VASSERT(p_pool_nres() == cnt, "numReservations() equals the number of live reservations");
  /* union of the live ranges, each rounded out to the alignment, counted in alignment blocks */
  long ref = 0;
  for (long b = 0; b < 64 / 2; b++) {
    int covered = 0;
    for (int i = 0; i < NH; i++) if (live[i]) { long lo = (p_off(i) / al) * al, hi = ru(p_off(i) + p_size(i), al); if (lo <= b * al && b * al < hi) covered = 1; }
    if (covered && b * al < 64) ref += al;
  }
  VASSERT(p_pool_reserved() == ref, "reserved() equals the size of the union of the live reservation ranges rounded out to the alignment");
  VASSERT(p_pool_size() >= p_pool_reserved(), "size() is at least reserved()");
  if (cnt == 0) VASSERT(p_pool_reserved() == 0, "releasing every reservation brings reserved() back to 0");
#endif
  VASSERT(!p_arena_overflow(), "harness bound: the buffer double ran out of arenas (history too long for the harness)");
}
static void fill(int h, const char *bytes) {
  long s = p_size(h);
  for (int k = 0; k < SMAX; k++) if (k < s) { p_ptr(h)[k] = bytes[k]; shadow[h][k] = bytes[k]; }
  /* writing through a slice changes its parent's bytes: keep the parent's shadow in step */
}
int main(void) {
  p_init(%(al)d);
'''


def harness(script):
    """script: list of ops.  Returns C text."""
    a = [PRE % {'nh': NH, 'smax': SMAX, 'al': AL}]
    h = 0; k = 0
    for op in script:
        k += 1
        if op[0] == 'R':
            a.append('  { IN(long, s%d); VASSUME(s%d >= 1 && s%d <= SMAX); IN_ARR(char, c%d, SMAX);' % (k, k, k, k))
            a.append('    int h = p_reserve(s%d); VASSERT(h == %d, "reserve succeeds"); live[%d] = 1; hsize[%d] = s%d;' % (k, h, h, h, k))
            a.append('#ifdef CHECK_C03\n    VASSERT(p_size(%d) == s%d, "a reservation has the requested size");\n#endif' % (h, k))
            a.append('    fill(%d, c%d); check_all("reserve"); }' % (h, k))
            h += 1
        elif op[0] == 'S':
            p = op[1]
            a.append('  { IN(long, so%d); IN(long, sl%d); VASSUME(so%d >= 0 && sl%d >= 1 && so%d + sl%d <= hsize[%d]);' % (k, k, k, k, k, k, p))
            a.append('    int h = p_slice(%d, so%d, sl%d); VASSERT(h == %d, "slice succeeds"); live[%d] = 1; isslice[%d] = 1; parent[%d] = %d; soff[%d] = so%d; hsize[%d] = sl%d;' % (p, k, k, h, h, h, h, p, h, k, h, k))
            a.append('    check_all("slice"); }')
            h += 1
        elif op[0] == 'F':
            a.append('  { p_release(%d); live[%d] = 0; check_all("release"); }' % (op[1], op[1]))
        elif op[0] == 'Z':
            a.append('  { IN(long, z%d); VASSUME(z%d >= 0 && z%d <= 48); long before = p_pool_reserved();' % (k, k, k))
            a.append('    int r = p_resize(z%d);' % k)
            a.append('#ifdef CHECK_C04\n    VASSERT((r != 0) == (z%d < before), "resize raises an error exactly when the new size is below reserved()");\n#endif' % k)
            a.append('    if (r == 0) { VASSERT(p_pool_size() >= z%d, "after resize the pool is at least as large as requested"); }' % k)
            a.append('    check_all("resize"); }')
        elif op[0] == 'K':
            a.append('  { int r = p_shrink(); VASSERT(r == 0, "shrinkToFit succeeds"); \n#ifdef CHECK_C04\n    VASSERT(p_pool_size() == p_pool_reserved(), "after shrinkToFit size() equals reserved()");\n#endif\n    check_all("shrinkToFit"); }')
        elif op[0] == 'A':
            a.append('  { int r = p_set_alignment(%d); VASSERT(r == 0, "setAlignment succeeds"); check_all("setAlignment"); }' % op[1])
    a.append('  VREACH();\n  return 0;\n}')
    return '\n'.join(a)


def name_of(script):
    return '-'.join(op[0] + (str(op[1]) if len(op) > 1 else '') for op in script)


def scripts(tier):
    R = ('R',); K = ('K',); Z = ('Z',)
    F = lambda h: ('F', h); S = lambda h: ('S', h); A = lambda a: ('A', a)
    L = [
        [R, R, F(0), R],                         # reuse of the first hole
        [R, R, R, F(1), R],                      # hole in the middle
        [R, R, R, F(0), F(2), R],                # fragmented: holes at both ends
        [R, R, F(0), Z],                         # resize packs
        [R, R, F(0), K, R],                      # shrinkToFit then reserve
        [R, S(0), F(0), F(1)],                   # slice outlives its parent
        [R, R, S(1), F(1), R],                   # slice outlives its parent, then a new reservation
        [R, R, F(0), A(8), R],                   # re-alignment packs
        [R, A(2), R, F(0), R],                   # smaller alignment
        [R, R, R, F(1), Z, R],                   # hole, resize, reserve
        [R, F(0), R, R],                         # empty pool again
        [Z, R, R],                               # pre-sized pool
    ]
    if tier == 'thorough':
        L += [
            [R, R, R, F(0), F(1), R, R],
            [R, R, S(0), S(1), F(0), F(1), R],
            [R, R, R, F(1), A(8), R, F(0)],
            [R, R, F(1), K, R, F(0), R],
            [R, S(0), S(1), F(1), F(0)],
            [R, R, R, F(0), F(2), Z, R],
            [R, R, A(3), F(0), R],
            [Z, R, F(0), K, R],
        ]
    return L


def relift(ctx):
    return C.lift(ctx, 'C03', os.path.join(H, 'wrap.cpp'), ROOTS, ub=True, libocca=True, models=[os.path.join(C.VERIF, 'harness', 'C01', 'models_c01.c'), os.path.join(H, 'models_c03.c')])


def run(ctx, pid, define):
    thorough = ctx.tier == 'thorough'
    L = relift(ctx)
    known = dict(C.load_known(pid))
    qs = []
    for sc in scripts(ctx.tier):
        nm = name_of(sc)
        if ctx.only and not re.search(ctx.only, nm):
            continue
        hp = ctx.path('h', nm + '.c'); open(hp, 'w').write(harness(sc))
        q = Query(nm, L, hp, [define], unwind=SMAX + 2, timeout=1500 if thorough else 900, backend='cadical',
                  desc='history %s from an empty pool (alignment %d): R reserve(symbolic 1..%d bytes, symbolic contents), F<k> release handle k, S<k> slice of handle k (symbolic window), Z resize(symbolic 0..48), K shrinkToFit, A<a> setAlignment(a); whole invariant re-checked after every operation' % (nm, AL, SMAX))
        q.no_ptr_overflow = True
        qs.append(q)
    C.run_queries(ctx, qs, witness=True)
    ctx.bounds = {'histories': '%d history shapes of up to %d operations from an empty pool (enumerated, concrete); handles are concrete' % (len(qs), max(len(s) for s in scripts(ctx.tier))),
                  'values': 'request sizes 1..%d bytes, slice windows anywhere inside the parent, resize targets 0..48, all byte contents: symbolic' % SMAX,
                  'alignment': 'initial alignment %d; setAlignment to 2, 3 or 8 inside histories (concrete)' % AL,
                  'outside': 'longer histories and other shapes; alignments other than those listed (division by a symbolic alignment does not finish); pool sizes above 64 bytes; the occa::memoryPool/occa::memory handle layer above (C01); non-Serial backends (their setPtr/memcpy)'}
    ctx.assumptions += ['std::set<modeMemory_t*, compare> is replaced by a flat sorted array with the same interface and the pool\'s own comparison (harness/C03/wrap.cpp); libstdc++\'s tree is trusted',
                        'the buffer double hands out a fresh 64-byte arena per allocation; json/device functions are empty models (harness/C01/models_c01.c, harness/C03/models_c03.c)',
                        'operator new never fails; occa::error modelled as a thrown exception']
    return C.finish(ctx)
