"""C03 memory-pool reservations never overlap and keep their contents (E1, bounded histories; see props/pool.py)"""
from props import pool


def relift(ctx):
    return pool.relift(ctx)


def run(ctx):
    return pool.run(ctx, 'C03', 'CHECK_C03')
