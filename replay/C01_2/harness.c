/* One arbitrary handle operation from a valid state (shape SHAPE = which object each of the 4 handles refers to, built with
 * the real constructors), then the representation invariant and the reference model are re-checked; finally all handles
 * go out of scope and every reference-counted object must have been destroyed exactly once.
 *   model: tgt[i] in {0 none, 1 X, 2 Y}; alive[k]; userefs[k]                                                         */
#include "vharness.h"
#include "C01_roots.h"
#ifndef NH
#define NH 3
#endif
static int tgt[NH], alive[2] = {1, 1}, userefs[2] = {1, 1};
static int refs(int k) { int n = 0; for (int i = 0; i < NH; i++) if (tgt[i] == k + 1) n++; return n; }
static void model_release(int i) {            /* handle i stops referring to its object */
  int k = tgt[i] - 1; tgt[i] = 0;
  if (k >= 0 && alive[k] && userefs[k] && refs(k) == 0) alive[k] = 0;
}
static void model_free(int k) { alive[k] = 0; for (int i = 0; i < NH; i++) if (tgt[i] == k + 1) tgt[i] = 0; }
static void check(const char *when) {
  for (int k = 0; k < 2; k++) {
    VASSERT(c_dtor(k) == (alive[k] ? 0 : 1), "each backend object is destroyed exactly once, exactly when the model says so");
    if (alive[k]) {
      VASSERT(c_ringlen(k) == refs(k), "the object's ring holds exactly its handles");
      for (int i = 0; i < NH; i++) VASSERT(c_inring(k, i) == (tgt[i] == k + 1), "a handle is linked in the ring of the object it refers to and in no other");
    }
  }
  for (int i = 0; i < NH; i++) {
    VASSERT(c_initialized(i) == (tgt[i] != 0), "isInitialized() is false exactly for handles without an object (incl. after free())");
    VASSERT(c_target(i) == tgt[i], "the handle refers to the object the model predicts");
    if (tgt[i] == 0) VASSERT(c_selflinked(i), "a handle without object is in no ring");
  }
}
int main(void) {
  static const int shape[NH] = { SHAPE };
  c_setup();
  for (int i = 0; i < NH; i++) { tgt[i] = shape[i]; if (shape[i]) c_attach(i, shape[i] - 1); }
#ifdef PRE_DONTUSEREFS
  for (int i = 0; i < NH; i++) if (tgt[i] == 1) { c_dontuserefs(i); userefs[0] = 0; break; }
#endif
  /* objects nobody refers to stay alive in the model (they were never reference counted down) */
  /* the pre-state is concrete (built above with the real constructors); the invariant is checked after the step */
#ifdef OPFIX
  /* operation and operand handles are concrete: the driver enumerates every (operation, a, b) for every state shape.
     (A single symbolic handle index makes every ring pointer symbolic and CBMC does not finish within minutes.) */
  int op = OPFIX, a = AFIX, b = BFIX;
#else
  IN(int, op); IN(int, a); IN(int, b);
#endif
  VASSUME(a >= 0 && a < NH && b >= 0 && b < NH);
  VASSUME(op >= 0 && op <= 5);
#ifdef NO_SWAP
  VASSUME(op != 3);
#endif
  switch (op) {
  case 0: if (a != b) { int t = tgt[b]; if (tgt[a] != t) { model_release(a); tgt[a] = t; } c_assign(a, b); } break;   /* a = b */
  case 1: if (a != b) { int t = tgt[b]; model_release(a); tgt[a] = t; c_copyconstruct(a, b); } break;                  /* a destroyed, then memory a(b) */
  case 2: model_release(a); c_destroy(a); break;                                                                       /* scope exit */
  case 3: { int t = tgt[a]; tgt[a] = tgt[b]; tgt[b] = t; c_swap(a, b); } break;                                        /* a.swap(b) */
  case 4: if (tgt[a]) model_free(tgt[a] - 1); c_free(a); break;                                                        /* a.free() */
  default: if (tgt[a]) userefs[tgt[a] - 1] = 0; c_dontuserefs(a); break;                                               /* a.dontUseRefs() */
  }
  check("post");
  /* every handle goes out of scope */
  for (int i = 0; i < NH; i++) { model_release(i); c_destroy(i); }
  check("end");
  VREACH();
  return 0;
}
