"""C01 handles release each backend object exactly once (E1: one-step inductive check on the real occa::memory handle code).
From every valid state shape of 4 handles over 2 backend objects (built with the real constructors), ONE operation with
symbolic kind and operands runs on the real code; the representation invariant and a reference model are re-checked, then
all handles go out of scope.  Induction over the invariant covers histories of any length over these objects."""
import os, re, itertools
from vlib import common as C
from vlib.common import Query
H = os.path.join(C.VERIF, 'harness', 'C01')
ROOTS = ['c_setup', 'c_attach', 'c_assign', 'c_copyconstruct', 'c_destroy', 'c_swap', 'c_free', 'c_dontuserefs', 'c_target', 'c_initialized', 'c_dtor', 'c_inring', 'c_ringlen', 'c_selflinked']
SHAPES = [(0, 0, 0), (1, 0, 0), (1, 1, 0), (1, 0, 1), (1, 1, 1), (1, 2, 0), (1, 1, 2), (1, 2, 1), (2, 1, 1), (0, 1, 2)]


def relift(ctx):
    return C.lift(ctx, 'C01', os.path.join(H, 'wrap.cpp'), ROOTS, libocca=True, models=[os.path.join(H, 'models_c01.c')])


OPS = {0: 'assign a = b', 1: 'destroy a, copy-construct a(b)', 2: 'scope exit of a', 3: 'a.swap(b)', 4: 'a.free()', 5: 'a.dontUseRefs()'}


def run(ctx):
    thorough = ctx.tier == 'thorough'
    L = relift(ctx)
    known = dict(C.load_known('C01'))
    hs = os.path.join(H, 'h_step.c')
    qs = []; qw = []; n_all = [0]
    for sh in SHAPES:
        for pre in ((0, 1) if 1 in sh else (0,)):
            for op in range(6):
                for a in range(3):
                    for b in (range(3) if op in (0, 1, 3) else (0,)):
                        if op == 3 and 'swap-ring' in known:
                            continue
                        d = ['SHAPE=%s' % ','.join(str(x) for x in sh), 'OPFIX=%d' % op, 'AFIX=%d' % a, 'BFIX=%d' % b] + (['PRE_DONTUSEREFS'] if pre else [])
                        nm = 'shape-%s%s-op%d-a%d-b%d' % (''.join(str(x) for x in sh), '-norefs' if pre else '', op, a, b)
                        q = Query(nm, L, hs, d, unwind=7, timeout=900, backend='cadical',
                                  desc='handles refer to objects %s%s; step: %s with a=h%d b=h%d; then every handle goes out of scope' % (sh, ' (X not reference counted)' if pre else '', OPS[op], a, b))
                        q.no_ptr_overflow = True
                        n_all[0] += 1
                        if not thorough and (n_all[0] + ctx.seed) % 3 != 0:
                            continue          # quick tier: every third step of the exhaustive list (the seed rotates which third)
                        (qw if (len(qs) + len(qw)) % 12 == 0 else qs).append(q)
    kq = []
    if 'swap-ring' in known:
        q = Query('swap/known', L, hs, ['SHAPE=1,1,2', 'OPFIX=3', 'AFIX=0', 'BFIX=2'], unwind=7, timeout=900, backend='cadical', expect='fail', known='key=swap-ring ' + known['swap-ring'], desc='re-confirm listed finding')
        q.no_ptr_overflow = True
        kq.append(q)
    if ctx.only:
        qs = [q for q in qs if re.search(ctx.only, q.name)]; qw = [q for q in qw if re.search(ctx.only, q.name)]
    C.selftest(ctx, L, hs, ['SHAPE=1,1,2', 'OPFIX=0', 'AFIX=2', 'BFIX=0'], [dict()], 'st')
    ctx.extra['count_all_verdicts'] = True
    C.run_queries(ctx, qw + kq, witness=True)
    C.run_queries(ctx, qs, witness=False)
    ctx.bounds = {'objects': '2 backend objects, 3 handle variables; %d state shapes (every distribution of the handles over the objects up to renaming, several ring orders), object X reference counted or not' % len(SHAPES),
                  'tier': 'thorough runs all %d steps, quick every third one' % n_all[0],
                  'step': 'EVERY operation (assign, copy-construct, scope exit, swap, free, dontUseRefs) on EVERY operand pair from every shape, each as one CBMC run on the lifted real code; then all handles go out of scope. States, operations and operands are enumerated exhaustively and are concrete - a single symbolic handle index makes all ring pointers symbolic and CBMC does not finish (>300 s); what the solver adds per step is the verdict on the invariant and on memory safety (use after free, double free, invalid pointer) of the real code',
                  'handle type': 'occa::memory (device, kernel, stream, memoryPool handles instantiate the same gc::ring_t<T> template and the same constructor/assign/destructor pattern; their mode objects need device/json doubles and are outside)',
                  'outside': 'the buffer layer below modeMemory_t (cut: modeBuffer == NULL, json/device functions of the buffer double are empty models), device-level freeResources cascades, multiRing_t, more than 3 handles / 2 objects in one step'}
    ctx.assumptions += ['induction: every history over these objects is a sequence of such steps from states satisfying the invariant, which is re-established after each step', 'operator new never fails', 'vacuity witness on every 12th step (the runs are concrete: reaching the end does not depend on solver choices)']
    return C.finish(ctx, rule='one evaluation = one CBMC run of one concrete step (state shape, operation, operands) on the lifted real handle code: invariant, reference model and memory-safety checks; non-trivial = verdict obtained (pass/fail); the set of steps is exhaustive for 3 handles over 2 objects')
