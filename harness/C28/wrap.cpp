// C28 wrappers: the real trie<int> / trieNode code from /repo
#include <cstring>
#include "occa/internal/utils/trie.cpp"
#include <occa/internal/utils/trie.hpp>
#define VX extern "C" __attribute__((noinline))
typedef occa::trie<int> T;

VX void* t_new(int autoFreeze) {
  T *t = new T();
  t->autoFreeze = (autoFreeze != 0);
  t->defaultValue = -77;
  return t;
}
VX void t_delete(void *t) { delete (T*) t; }
VX int t_add(void *t, const char *key, int value) {
  try { ((T*) t)->add(key, value); return 0; } catch (...) { return -1; }
}
VX int t_remove(void *t, const char *key) {
  try { ((T*) t)->remove(key); return 0; } catch (...) { return -1; }
}
VX int t_clear(void *t) { try { ((T*) t)->clear(); return 0; } catch (...) { return -1; } }
VX int t_freeze(void *t) { try { ((T*) t)->freeze(); return 0; } catch (...) { return -1; } }
VX int t_defrost(void *t) { try { ((T*) t)->defrost(); return 0; } catch (...) { return -1; } }
VX int t_isFrozen(void *t) { return ((T*) t)->isFrozen ? 1 : 0; }
VX int t_size(void *t) { try { return ((T*) t)->size(); } catch (...) { return -1; } }
// longest stored prefix of query[0..len): returns length (0 = none), *value = stored value (or default)
VX int t_longest(void *t, const char *query, int len, int *value, int *success) {
  try {
    T::result_t r = ((T*) t)->getLongest(query, len);
    *success = r.success() ? 1 : 0;
    *value = r.value();
    return r.length;
  } catch (...) { return -1; }
}
VX int t_get(void *t, const char *key, int len, int *value, int *success) {
  try {
    T::result_t r = ((T*) t)->get(key, len);
    *success = r.success() ? 1 : 0;
    *value = r.value();
    return r.length;
  } catch (...) { return -1; }
}
VX int t_has(void *t, const char *key, int len) {
  try { return ((T*) t)->has(key, len) ? 1 : 0; } catch (...) { return -1; }
}
VX int t_has_char(void *t, int c) {
  try { return ((T*) t)->has((char) c) ? 1 : 0; } catch (...) { return -1; }
}
