/* C03/C04 models.  The pool reads one property ("verbose") through occa::json::get<bool>; the harness passes an empty
 * json, so the default is returned (verbose off: the printing code is not reached). */
_Bool _ZNK4occa4json3getIbEET_PKcRKS2_(char *self, char *key, char *dflt) { return *(_Bool *) dflt; }
/* the pool itself is never destroyed inside a history (p_init calls dontUseRefs()): reaching a pool destructor is an error */
void _ZN4occa16modeMemoryPool_tD0Ev(char* p) { __CPROVER_assert(0, "the pool is never destroyed inside a history"); }
void _ZN4occa16modeMemoryPool_tD2Ev(char* p) { __CPROVER_assert(0, "the pool is never destroyed inside a history"); }
void _ZN4occa6serial10memoryPoolD0Ev(char* p) { __CPROVER_assert(0, "the pool is never destroyed inside a history"); }
void _ZN5vpoolD0Ev(char* p) { __CPROVER_assert(0, "the pool is never destroyed inside a history"); }
/* ~modeBuffer_t: the backing buffers of a pool never own memory objects (reservations are registered with the pool), so the
 * "destroy all slices" loop does not run; the model asserts exactly that and performs the rest of the destructor
 * (b_dtor_tail in wrap.cpp).  This cuts the mutual recursion ~modeBuffer_t <-> ~modeMemory_t, which CBMC would unroll with
 * all virtual-destructor candidates at every level. */
int b_ring_empty(char *b); void b_dtor_tail(char *b);
void _ZN4occa12modeBuffer_tD2Ev(char* p) { __CPROVER_assert(b_ring_empty(p), "a backing buffer is destroyed only when no memory object is registered with it"); b_dtor_tail(p); }
