// C27 wrappers: the real hash_t code from /repo, reached through POD entry points.
#include "utils/hash.cpp"
#include <occa/utils/hash.hpp>
#include <occa/internal/utils/string.hpp>
#include <cstring>
#define VX extern "C" __attribute__((noinline))

// fromString(getFullString(h)) -> out; returns length of the full string, -1 on exception
VX int v_roundtrip(const int *h, int *out) {
  try {
    occa::hash_t a(h);
    std::string s = a.getFullString();
    occa::hash_t b = occa::hash_t::fromString(s);
    for (int i = 0; i < 8; i++) out[i] = b.h[i];
    return (int) s.size();
  } catch (...) { return -1; }
}

// mode: 0 fresh object, 1 copy-constructed, 2 assigned, 3 getString called twice (second answer),
//       4 result of XOR with h2, 5 after getFullString, 6 via hash_t(const int*) then operator^=,
//       7 a ^= x with x's short string cached, 8 c = a ^ x (assignment) with x cached, 9 copies and assignments around ^= with both cached
VX int v_short(const int *h, const int *h2, int mode, char *full, char *sh) {
  try {
    occa::hash_t a(h);
    occa::hash_t b;
    std::string f, s;
    switch (mode) {
    case 0: f = a.getFullString(); s = a.getString(); break;
    case 1: { occa::hash_t c(a); f = c.getFullString(); s = c.getString(); break; }
    case 2: { (void) b.getString(); b = a; f = b.getFullString(); s = b.getString(); break; }
    case 3: { (void) a.getString(); f = a.getFullString(); s = a.getString(); break; }
    case 4: { occa::hash_t x(h2); occa::hash_t c = a ^ x; f = c.getFullString(); s = c.getString(); break; }
    case 5: { f = a.getFullString(); f = a.getFullString(); s = a.getString(); break; }
    case 6: { occa::hash_t x(h2); (void) a.getString(); a ^= x; f = a.getFullString(); s = a.getString(); break; }
    // the RIGHT operand has its short string cached before the combination, and the result goes through an assignment
    case 7: { occa::hash_t x(h2); (void) x.getString(); a ^= x; f = a.getFullString(); s = a.getString(); break; }
    case 8: { occa::hash_t x(h2); (void) x.getString(); occa::hash_t c; c = a ^ x; f = c.getFullString(); s = c.getString(); break; }
    default: { occa::hash_t x(h2); (void) x.getString(); (void) a.getString(); occa::hash_t c(x); c = a; c ^= x; occa::hash_t d(c); f = d.getFullString(); s = d.getString(); break; }
    }
    for (size_t i = 0; i < f.size() && i < 80; i++) full[i] = f[i];
    for (size_t i = 0; i < s.size() && i < 80; i++) sh[i] = s[i];
    return (int) f.size() * 100 + (int) s.size();
  } catch (...) { return -1; }
}

// hash of n bytes -> out; two independent calls must agree (determinism)
VX int v_hash(const char *p, unsigned long n, int *out) {
  try {
    occa::hash_t a = occa::hash((const void*) p, n);
    for (int i = 0; i < 8; i++) out[i] = a.h[i];
    return a.isInitialized() ? 1 : 0;
  } catch (...) { return -1; }
}

// operators: ==, !=, <, ^ on two hashes
VX int v_ops(const int *h1, const int *h2, int *x) {
  try {
    occa::hash_t a(h1), b(h2);
    occa::hash_t c = a ^ b;
    for (int i = 0; i < 8; i++) x[i] = c.h[i];
    int r = 0;
    if (a == b) r |= 1;
    if (a != b) r |= 2;
    if (a < b) r |= 4;
    if (b < a) r |= 8;
    return r;
  } catch (...) { return -1; }
}
