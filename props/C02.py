"""C02 device memory behaves like an aliased byte array; misuse raises errors (E1: request validation layer)."""
import os, re
from vlib import common as C
from vlib.common import Query
H = os.path.join(C.VERIF, 'harness', 'C02')
ROOTS = ['m_setup', 'm_copy_from_ptr', 'm_copy_to_ptr', 'm_copy_from_mem', 'm_copy_to_mem', 'm_slice', 'm_calls', 'm_kind', 'm_bytes', 'm_off', 'm_off2']
OPS = {0: 'copyFrom(ptr, count, offset)', 1: 'copyTo(ptr, count, offset)', 2: 'copyFrom(memory, count, destOffset, srcOffset)', 3: 'copyTo(memory, count, destOffset, srcOffset)', 4: 'slice(offset, count)'}


def relift(ctx):
    return C.lift(ctx, 'C02', os.path.join(H, 'wrap.cpp'), ROOTS, ub=True, libocca=True, models=[os.path.join(C.VERIF, 'harness', 'C01', 'models_c01.c'), os.path.join(H, 'models_c02.c')])


def run(ctx):
    thorough = ctx.tier == 'thorough'
    L = relift(ctx)
    known = dict(C.load_known('C02'))
    hs = os.path.join(H, 'h_req.c')
    qs = []
    dts = [(1, 1), (4, 4), (8, 2), (2, 8)] if not thorough else [(a, b) for a in (1, 2, 4, 8) for b in (1, 2, 4, 8)]
    nw = (['NO_WRAP'] if 'wrapping-request' in known else []) + (['NO_NEG_SLICE'] if 'negative-slice-offset' in known else [])
    for op in range(5):
        for (d0, d1) in (dts if op in (2, 3) else sorted(set((a, 1) for a, _ in dts))):
            for init1 in ((1, 0) if op in (2, 3) else (1,)):
                qs.append(Query('op%d-d%d-%d%s' % (op, d0, d1, '' if init1 else '-uninit'), L, hs, ['OP=%d' % op, 'D0=%d' % d0, 'D1=%d' % d1, 'INIT1=%d' % init1] + nw, unwind=6, timeout=1800 if thorough else 900, backend='cadical',
                                desc='%s: element sizes %d/%d, memory sizes 0..32 bytes at offsets 0..16 of a 64-byte buffer, count/offsets: %s, second handle %s' % (OPS[op], d0, d1, '|x| < 2^59 (listed finding excluded)' if nw else 'all 64-bit values', 'initialised' if init1 else 'NOT initialised')))
    if 'negative-slice-offset' in known:
        qs.append(Query('negslice/known', L, hs, ['OP=4', 'D0=1', 'D1=1', 'INIT1=1', 'NO_WRAP'], unwind=6, timeout=400, backend='cadical', expect='fail', known='key=negative-slice-offset ' + known['negative-slice-offset'], desc='re-confirm listed finding'))
    if 'wrapping-request' in known:
        q = Query('wrap/known', L, hs, ['OP=0', 'D0=4', 'D1=1', 'INIT1=1'], unwind=6, timeout=400, backend='cadical', expect='fail', known='key=wrapping-request ' + known['wrapping-request'], desc='re-confirm listed finding')
        qs.append(q)
    # byte level: the real Serial backend below the same validation code, small symbolic requests, symbolic contents
    Lb = C.lift(ctx, 'C02b', os.path.join(H, 'wrap_bytes.cpp'), ['b_setup', 'b_copy_from_ptr', 'b_copy_to_ptr', 'b_copy_from_mem', 'b_slice_write'], ub=False, libocca=True,
                models=[os.path.join(C.VERIF, 'harness', 'C01', 'models_c01.c')])
    hb = os.path.join(H, 'h_bytes.c')
    BOPS = {0: 'copyFrom(ptr)', 1: 'copyTo(ptr)', 2: 'copyFrom(memory)', 3: 'slice, then copyFrom(ptr) through the slice'}
    for op in range(3):      # (op 3, slice-then-write, does not finish: the slice object is allocated under symbolic offsets)
        for (d0, d1) in ([(1, 1), (4, 2)] if not thorough else [(1, 1), (2, 1), (4, 2), (2, 4)]):
            qb = Query('bytes-op%d-d%d-%d' % (op, d0, d1), Lb, hb, ['OP=%d' % op, 'D0=%d' % d0, 'D1=%d' % d1], unwind=14, timeout=1800 if thorough else 900, backend='cadical',
                       desc='%s on the real Serial backend: two 12-byte stores with symbolic contents, memory objects at symbolic offsets/sizes, count/offsets in -2..14, element sizes %d/%d; every byte vs the model' % (BOPS[op], d0, d1))
            qs.append(qb)
    for q in qs:
        q.no_ptr_overflow = True
        q.witness_vectors = [dict(base0=4, size0=16, base1=0, size1=16, init1=1, count=1, off=1, off2=1), dict(base0=0, size0=8, base1=0, size1=8, init1=1, count=-1, off=0, off2=0), dict(base0=0, size0=8, base1=0, size1=8, init1=1, count=0, off=0, off2=0)]
    if ctx.only:
        qs = [q for q in qs if re.search(ctx.only, q.name)]
    C.selftest(ctx, L, hs, ['OP=0', 'D0=4', 'D1=1'], [dict(base0=4, size0=16, base1=0, size1=16, init1=1, count=2, off=1, off2=0), dict(base0=0, size0=8, base1=0, size1=8, init1=1, count=9, off=0, off2=0)], 'st')
    C.run_queries(ctx, qs)
    ctx.bounds = {'requests': 'count and offsets: ALL 64-bit values (negative, huge, wrapping products); element sizes %s; memory objects of 0..32 bytes at byte offsets 0..16 (i.e. slices) of a 64-byte buffer; the second handle initialised or not' % sorted(set(dts)),
                  'oracle': 'byte-array model in 128-bit integers: in range <=> returns normally and exactly that byte range reaches the backend; otherwise occa::exception and nothing reaches the backend',
                  'outside': 'the byte copies themselves (the Serial backend is three memcpy lines; the backend here is a recording double), malloc/wrapMemory/clone (need a device), OpenMP mode (same code), sequences of operations (each request is validated independently of earlier ones; slices are objects with an arbitrary base offset)'}
    ctx.assumptions += ['operator new never fails; occa::error modelled as a thrown exception; json/device functions of the buffer double are empty models (harness/C01/models_c01.c)', 'signed overflow in the validation arithmetic is checked (lifted with --ub)']
    return C.finish(ctx)
