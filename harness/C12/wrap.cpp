// C12 wrappers: lexical leaves every string/char token passes through (real code from /repo)
#include "occa/internal/utils/string.cpp"
#include "occa/internal/utils/lex.cpp"
#include "errstub.hpp"
#include <cstring>
#define VX extern "C" __attribute__((noinline))
static void put(const std::string &s, char *out, int *n) { *n = (int) s.size(); for (size_t i = 0; i < s.size() && i < 16; i++) out[i] = s[i]; }
// raw literal body -> token value (what tokenizer_t::getString/getCharToken store): unescape(raw, quote)
VX int l_unescape(const char *raw, int n, int quote, char *out, int *on) {
  try { put(occa::unescape(std::string(raw, (size_t) n), (char) quote), out, on); return 0; } catch (...) { return -1; }
}
// token value -> printed literal body (stringToken::print / charToken::print / stringNode / charNode): escape(value, quote)
VX int l_escape(const char *val, int n, int quote, char *out, int *on) {
  try { put(occa::escape(std::string(val, (size_t) n), (char) quote), out, on); return 0; } catch (...) { return -1; }
}
// the tokenizer's end-of-literal search: skipTo(c, "<quote>\n", '\\') on a NUL-terminated buffer; returns the offset reached
VX int l_skipto(const char *buf, int quote) {
  try {
    const char *c = buf;
    const char delims[3] = {(char) quote, '\n', 0};
    occa::lex::skipTo(c, delims, '\\');
    return (int) (c - buf);
  } catch (...) { return -1; }
}
// totality of the leaves on arbitrary NUL-terminated bytes
VX int l_total(const char *buf, int quote) {
  try {
    const char *c = buf; occa::lex::skipWhitespace(c);
    c = buf; occa::lex::skipToWhitespace(c);
    c = buf; occa::lex::skipTo(c, (char) quote);
    c = buf; occa::lex::skipTo(c, (char) quote, '\\');
    c = buf; occa::lex::skipFrom(c, "ab");
    return (int) (c - buf);
  } catch (...) { return -1; }
}
