#include <sstream>
#include <string>
extern "C" void verif_sstream_str_used();
namespace std {
  struct verif_sstream {
    template <class T> verif_sstream& operator<<(const T&) { return *this; }
    verif_sstream& operator<<(std::ostream& (*)(std::ostream&)) { return *this; }
    std::string str() const { verif_sstream_str_used(); return std::string(); }
    void str(const std::string&) {}
  };
}
#define stringstream verif_sstream
