#!/usr/bin/env python3-vt
"""C06 real-hash query.  stdin: JSON {props: [...], values: n, h: {prop: [hex256 per value index]}}
h[p][v] is the hash the REAL library computed (hook trace) for the key-term leaf of property p when it holds value v.
All other leaves are equal in both configurations and cancel, so  key(A) ^ key(B) = XOR_p (h[p][a_p] ^ h[p][b_p]).
The query asks for value choices a != b with XOR 0 (bit-vectors of 256 bits, the choice encoded by ITE chains)."""
import sys, json
import z3


def main():
    q = json.load(sys.stdin)
    props = q['props']; n = q['values']
    s = z3.Solver(); s.set('timeout', int(q.get('timeout_ms', 120000)))
    def sel(p, var):
        e = z3.BitVecVal(int(q['h'][p][n - 1], 16), 256)
        for v in range(n - 2, -1, -1):
            e = z3.If(var == v, z3.BitVecVal(int(q['h'][p][v], 16), 256), e)
        return e
    acc = z3.BitVecVal(0, 256); diff = []
    A = {}; B = {}
    for p in props:
        A[p] = z3.Int('a_' + p); B[p] = z3.Int('b_' + p)
        s.add(A[p] >= 0, A[p] < n, B[p] >= 0, B[p] < n)
        acc = acc ^ sel(p, A[p]) ^ sel(p, B[p])
        diff.append(A[p] != B[p])
    s.add(acc == 0, z3.Or(diff))
    r = s.check()
    out = {'result': str(r)}
    if r == z3.sat:
        m = s.model()
        out['A'] = {p: m.eval(A[p], model_completion=True).as_long() for p in props}
        out['B'] = {p: m.eval(B[p], model_completion=True).as_long() for p in props}
    elif r == z3.unknown:
        out['detail'] = s.reason_unknown()
    json.dump(out, sys.stdout)


main()
