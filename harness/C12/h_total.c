/* the lexical leaves terminate in bounds on arbitrary NUL-terminated bytes (CBMC bounds/pointer checks on the lifted code) */
#include "vharness.h"
#include "C12_roots.h"
#ifndef NB
#define NB 5
#endif
int main(void) {
  IN_ARR(char, b, NB);
#ifdef QSEL
  int qsel = QSEL;
#else
  IN(int, qsel);
#endif
  char buf[NB + 1];
  for (int i = 0; i < NB; i++) buf[i] = b[i];
  buf[NB] = 0;
  int r = l_total(buf, qsel ? '"' : '\'');
  VASSERT(r >= 0 && r <= NB, "the scan stays inside the buffer");
  char o[16]; int on = -1;
  int n = 0; while (n < NB && buf[n]) n++;
  VASSERT(l_escape(buf, n, '"', o, (char *) &on) == 0 && on >= n && on <= 2 * n, "escape: every byte kept, at most one escape character per byte");
  VASSERT(l_unescape(buf, n, '"', o, (char *) &on) == 0 && on <= n, "unescape never grows the text");
  VREACH();
  return 0;
}
