/* C API scalars keep value and type: constructor fields, round trip through occa::primitive, kernel-argument conversion.
 * k selects the C entry point (0 occaBool .. 18 occaULong), bits is the full-width symbolic value. */
#include "vharness.h"
#include "C29_roots.h"
static const int ETYPE[19]  = {4, 5, 6, 7, 8, 9, 10, 11, 12, 13, 14, 5, 6, 7, 8, 9, 10, 11, 12};   /* occa::c::typeType of each entry point */
static const int EBYTES[19] = {1, 1, 1, 2, 2, 4, 4, 8, 8, 4, 8, 1, 1, 2, 2, 4, 4, 8, 8};
int main(void) {
  IN(int, k); IN(unsigned long, bits);
  VASSUME(k >= 0 && k < 19);
#ifdef SKIP_BOOL
  VASSUME(k != 0);
#endif
#ifdef KFIX
  VASSUME(k == KFIX);
#endif
  unsigned long mask = EBYTES[k] == 8 ? ~0ul : ((1ul << (8 * EBYTES[k])) - 1);
  unsigned long want = (k == 0) ? (bits & 1) : (bits & mask);
  unsigned long o[5] = {0, 0, 0, 0, 0};
#if MODE == 0
  int r = v_make(k, bits, (char *) o);
#elif MODE == 1
  int r = v_roundtrip(k, bits, (char *) o);
#elif MODE == 2
  int r = v_roundtrip_typed(k, bits, (char *) o);
#else
  int r = v_kernelarg(k, bits, (char *) o);
#endif
  OUT(r, r); OUT(o0, o[0]); OUT(o1, o[1]); OUT(o2, o[2]); OUT(o3, o[3]); OUT(o4, o[4]);
  VASSERT(r == 0, "the conversion succeeds for every scalar (no error raised)");
#if MODE <= 2
  VASSERT(o[0] == 0x3030CE64ul, "magic header");     /* OCCA_C_TYPE_MAGIC_HEADER */
  VASSERT(o[1] == (unsigned long) ETYPE[k], "same C type tag");
  VASSERT(o[2] == (unsigned long) EBYTES[k], "same byte size");
  VASSERT(o[3] == 0, "scalars never need freeing");
  VASSERT(o[4] == want, "same value bits");
#else
  VASSERT(o[0] == (unsigned long) EBYTES[k], "kernel argument has the size of the C type");
  VASSERT(o[1] == want, "kernel argument carries the same value bits");
  VASSERT(o[2] == 0, "a scalar argument is not a pointer");
#endif
  VREACH();
  return 0;
}
