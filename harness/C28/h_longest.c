/* getLongest / get / has / size against a linear-scan reference, frozen and unfrozen.
 * The key set (NK keys K0..K3, optional removed key RK) is concrete and enumerated by the driver;
 * the stored values, the query bytes (all 256 values) and the query length (<= QL) are symbolic, so
 * the solver decides the property for every query string and every value assignment of that key set.
 * (Symbolic keys make every std::map pointer symbolic and CBMC's symbolic execution does not finish.) */
#include "vharness.h"
#include "C28_roots.h"
#ifndef NK
#define NK 2
#define K0 "ab"
#define K1 "a"
#endif
#ifndef QL
#define QL 4
#endif
static const char *KEYS[] = { K0,
#if NK > 1
  K1,
#endif
#if NK > 2
  K2,
#endif
#if NK > 3
  K3,
#endif
};
static int slen(const char *s) { int n = 0; while (s[n]) n++; return n; }
static int is_prefix(const char *k, int kl, const char *q, int ql) {
  if (kl > ql) return 0;
  for (int i = 0; i < kl; i++) if (k[i] != q[i]) return 0;
  return 1;
}
static int same(const char *a, const char *b) {
  int i = 0;
  while (a[i] && a[i] == b[i]) i++;
  return a[i] == b[i];
}
int main(void) {
  IN_ARR(int, kval, NK);
  IN_ARR(char, qb, QL + 1);
#ifdef QLEN
  unsigned char qlen = QLEN;   /* concrete query length (driver enumerates 0..QL) */
#else
  IN(unsigned char, qlen);
#endif
  int live[NK];
  VASSUME(qlen <= QL);
  char q[QL + 1];
  /* the query is the window q[0..qlen) of a longer buffer: the bytes after it are arbitrary (only the last one is NUL) */
  for (int i = 0; i <= QL; i++) { if (i < qlen) { VASSUME(qb[i] != 0); q[i] = qb[i]; } else if (i < QL) { q[i] = qb[i]; } else q[i] = 0; }
#ifdef EXCLUDE_KNOWN
  EXCLUDE_KNOWN
#endif
  char *t = t_new(AUTOFREEZE);
  for (int k = 0; k < NK; k++) {
    VASSERT(t_add(t, (char*) KEYS[k], kval[k]) == 0, "add does not throw");
    live[k] = 1;
    for (int j = 0; j < k; j++) if (live[j] && same(KEYS[j], KEYS[k])) live[j] = 0;  /* re-add overrides */
  }
#ifdef RK
  VASSERT(t_remove(t, (char*) RK) == 0, "remove does not throw");
  for (int j = 0; j < NK; j++) if (live[j] && same(KEYS[j], RK)) live[j] = 0;
#endif
#ifdef READD
  /* add again after the remove: index bookkeeping (values vector is compacted by remove) */
  IN(int, rval);
  VASSERT(t_add(t, (char*) READD, rval) == 0, "add does not throw");
  int readd_live = 1;
  for (int j = 0; j < NK; j++) if (live[j] && same(KEYS[j], READD)) live[j] = 0;
#endif
  int nlive = 0, best = -1, bestlen = 0, bestval = 0;
  for (int j = 0; j < NK; j++) if (live[j]) {
    int kl = slen(KEYS[j]);
    nlive++;
    if (is_prefix(KEYS[j], kl, q, qlen) && kl > bestlen) { best = j; bestlen = kl; bestval = kval[j]; }
  }
#ifdef READD
  nlive++;
  if (is_prefix(READD, slen(READD), q, qlen) && slen(READD) > bestlen) { best = NK; bestlen = slen(READD); bestval = rval; }
#endif
  for (int pass = 0; pass < 2; pass++) {
    int val = 0, ok = 0;
    int len = t_longest(t, q, qlen, (char*) &val, (char*) &ok);
    OUT(len, len); OUT(ok, ok); OUT(val, val);
    VASSERT(len != -1, "getLongest does not throw");
    VASSERT(ok == (best >= 0), "getLongest succeeds iff some stored key is a prefix of the query");
    if (best >= 0) {
      VASSERT(len == bestlen, "getLongest returns the length of the longest stored prefix");
      VASSERT(val == bestval, "getLongest returns the most recently added value of that key");
    }
    VASSERT(t_size(t) == nlive, "size() counts stored keys");
    if (qlen > 0) {
      int gval = 0, gok = 0;
      int glen = t_get(t, q, qlen, (char*) &gval, (char*) &gok);
      int stored = (best >= 0 && bestlen == qlen);
      VASSERT(gok == stored, "get succeeds exactly for stored keys");
      if (stored) VASSERT(gval == bestval, "get returns the stored value");
      VASSERT(t_has(t, q, qlen) == stored, "has succeeds exactly for stored keys");
    }
    /* second pass: the other representation */
    if (t_isFrozen(t)) { VASSERT(t_defrost(t) == 0, "defrost"); } else { VASSERT(t_freeze(t) == 0, "freeze"); }
  }
#ifdef DESTROY
  t_delete(t);
#endif
  VREACH();
  return 0;
}
