#!/usr/bin/env python3
import json,sys,os
pid, tag = sys.argv[1], sys.argv[2]
extra = sys.argv[3] if len(sys.argv) > 3 else 'Pick a different mechanism than the most obvious one if you can think of two.'
for l in open(os.path.join(os.path.dirname(__file__),'..','properties.jsonl')):
    p = json.loads(l)
    if p['id'] == pid:
        t = open(os.path.join(os.path.dirname(__file__),'mutant_prompt.txt')).read()
        t = t.replace('__ID__', pid).replace('__TAG__', tag).replace('__TITLE__', p['title']).replace('__STATEMENT__', p['statement']).replace('__QUANT__', p['quantifier']['text']).replace('__FILES__', ', '.join(p['anchors']['files'])).replace('__EXTRA__', extra)
        print(t)
