/* parse(dump(s)) == s for a JSON string value (KEY: for an object key) of symbolic bytes, length <= NB */
#include "vharness.h"
#include "C24_roots.h"
#ifndef NB
#define NB 3
#endif
int main(void) {
  IN_ARR(char, s, NB);
  IN(int, n);
  VASSUME(n >= 0 && n <= NB);
#ifdef NO_NUL
  for (int i = 0; i < NB; i++) VASSUME(i >= n || s[i] != 0);      /* listed finding: NUL bytes */
#endif
  char dumped[16], loaded[16]; int dn = -1, ln = -1;
  for (int i = 0; i < 16; i++) { dumped[i] = 0; loaded[i] = 0; }
#ifdef KEY
  int r = j_key_roundtrip(s, n, loaded, (char *) &ln);
#else
  int r = j_string_roundtrip(s, n, dumped, (char *) &dn, loaded, (char *) &ln);
#endif
  OUT(r, r); OUT(ln, ln);
  VASSERT(r == 1, "dump then parse succeeds and yields a value of the same kind");
  VASSERT(ln == n, "same length");
  for (int i = 0; i < NB; i++) if (i < n) VASSERT(loaded[i] == s[i], "same bytes");
  VREACH();
  return 0;
}
