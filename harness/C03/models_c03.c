/* C03/C04 models.  The pool reads one property ("verbose") through occa::json::get<bool>; the harness passes an empty
 * json, so the default is returned (verbose off: the printing code is not reached). */
_Bool _ZNK4occa4json3getIbEET_PKcRKS2_(char *self, char *key, char *dflt) { return *(_Bool *) dflt; }
/* the pool itself is never destroyed inside a history (p_init calls dontUseRefs()): reaching a pool destructor is an error */
void _ZN4occa16modeMemoryPool_tD0Ev(char* p) { __CPROVER_assert(0, "the pool is never destroyed inside a history"); }
void _ZN4occa16modeMemoryPool_tD2Ev(char* p) { __CPROVER_assert(0, "the pool is never destroyed inside a history"); }
void _ZN4occa6serial10memoryPoolD0Ev(char* p) { __CPROVER_assert(0, "the pool is never destroyed inside a history"); }
void _ZN5vpoolD0Ev(char* p) { __CPROVER_assert(0, "the pool is never destroyed inside a history"); }
