// C10 wrappers: the real dtype cast-compatibility rule on flattened dtype vectors of symbolic shape.
// (private members are opened so that the flattened vectors can be set directly: building struct/tuple trees goes through
//  heap-allocated dtypeStruct_t/dtypeTuple_t objects whose shapes the solver cannot usefully vary)
#define private public
#define protected public
#include <string>
#include <vector>
#include <map>
#include <iostream>
#include <sstream>
#include "dtype/dtype.cpp"
#undef private
#undef protected
#include "errstub.hpp"
#define VX extern "C" __attribute__((noinline))
using occa::dtype_t;
#include <new>
#include <cstring>
// dtype objects are zero-initialised raw storage (ref == NULL, no enum/struct/tuple/union, empty vectors): the cast rule only
// looks at object identity and at the flattened vectors; constructors/destructors (std::string names, owned pointers) are
// not the subject and are never run.
struct raw_dtype { alignas(dtype_t) char b[sizeof(dtype_t)]; dtype_t* p() { return reinterpret_cast<dtype_t*>(b); } };
static void zero(raw_dtype &r) { memset(r.b, 0, sizeof(r.b)); }
// a vector of concrete capacity 8 whose size is set to the symbolic n by moving its end pointer: no push_back/realloc paths
static void fill(occa::dtypeVector_t &v, raw_dtype *leaf, const int *sel, int n) {
  new (&v) occa::dtypeVector_t(8, (const dtype_t*) 0);
  for (int i = 0; i < 8; i++) v[i] = leaf[(i < n) ? sel[i] : 0].p();
  v._M_impl._M_finish = v._M_impl._M_start + n;
}

VX int d_cast(int nf, const int *fsel, int nt, const int *tsel) {
  try {
    raw_dtype leaf[3], from, to;
    for (int k = 0; k < 3; k++) zero(leaf[k]);
    zero(from); zero(to);
    fill(from.p()->flatDtype, leaf, fsel, nf);
    fill(to.p()->flatDtype, leaf, tsel, nt);
    return from.p()->canBeCastedTo(*to.p()) ? 1 : 0;
  } catch (...) { return -1; }
}
// an empty tuple dtype (flattened form has no entries) against a dtype of nt >= 1 leaves, both directions
VX int d_cast_empty(int nt, const int *tsel, int dir) {
  try {
    raw_dtype leaf[3], from, to;
    for (int k = 0; k < 3; k++) zero(leaf[k]);
    zero(from); zero(to);
    // a tuple of size 0 (dtype_t::tuple(x, 0)): its flattened form has no entries.  Zeroed raw storage: size == 0, the element
    // dtype is never looked at.
    alignas(occa::dtypeTuple_t) static char sb[sizeof(occa::dtypeTuple_t)];
    memset(sb, 0, sizeof(sb));
    from.p()->tuple_ = reinterpret_cast<occa::dtypeTuple_t*>(sb);
    fill(to.p()->flatDtype, leaf, tsel, nt);
    return (dir ? to.p()->canBeCastedTo(*from.p()) : from.p()->canBeCastedTo(*to.p())) ? 1 : 0;
  } catch (...) { return -1; }
}
VX int d_cyclic(int n, const int *sel, int cycle) {
  try {
    raw_dtype leaf[3];
    for (int k = 0; k < 3; k++) zero(leaf[k]);
    alignas(occa::dtypeVector_t) char vb[sizeof(occa::dtypeVector_t)];
    occa::dtypeVector_t &v = *reinterpret_cast<occa::dtypeVector_t*>(vb);
    fill(v, leaf, sel, n);
    return dtype_t::isCyclic(v, cycle) ? 1 : 0;
  } catch (...) { return -1; }
}
