"""C28 trie longest-prefix, frozen or not (E1: lift + CBMC).
Key sets are concrete (enumerated here); stored values, query bytes and query length are symbolic."""
import os, re, itertools
from vlib import common as C
from vlib.common import Query
H = os.path.join(C.VERIF, 'harness', 'C28')
ROOTS = ['t_new', 't_delete', 't_add', 't_remove', 't_clear', 't_freeze', 't_defrost', 't_isFrozen', 't_size', 't_longest', 't_get', 't_has', 't_has_char']
RETYPE = {'%"struct.__gnu_cxx::__aligned_membuf"': '{ i8, %"class.occa::trieNode" }'}   # std::pair<const char, trieNode>

def cfg_defs(keys, rk=None, readd=None, af=0, ql=3):
    d = ['NK=%d' % len(keys), 'AUTOFREEZE=%d' % af, 'QL=%d' % ql]
    for i, k in enumerate(keys):
        d.append('K%d="%s"' % (i, k))
    if rk is not None: d.append('RK="%s"' % rk)
    if readd is not None: d.append('READD="%s"' % readd)
    return d

def cfg_name(keys, rk, readd, af):
    return 'keys=%s%s%s%s' % ('+'.join(keys), ' remove=%s' % rk if rk is not None else '', ' readd=%s' % readd if readd is not None else '', ' autofreeze' if af else '')

def run(ctx):
    thorough = ctx.tier == 'thorough'
    rb = os.path.join(C.LIFT, 'rbtree_model.c')
    L = C.lift(ctx, 'C28', os.path.join(H, 'wrap.cpp'), ROOTS, models=[rb], retype=RETYPE, libocca=True)
    cfgs = [(['a', 'abc'], None, None, 0), (['ab', 'a'], None, None, 1), (['a', 'b'], 'a', None, 0), (['ba', 'bb'], 'bc', None, 0)]
    if thorough:
        cfgs += [(['ab', 'ab'], None, None, 0), (['a', 'abc'], 'a', None, 1), (['b', 'ab'], None, None, 0), (['ab', 'b'], 'b', None, 1), (['a', 'ab'], None, None, 0), (['ba', 'a'], 'ba', None, 0)]
    seen = set(); qs = []
    for keys, rk, readd, af in cfgs:
        nm = cfg_name(keys, rk, readd, af)
        if nm in seen: continue
        seen.add(nm)
        qs.append(Query(nm.replace(' ', '_'), L, os.path.join(H, 'h_longest.c'), cfg_defs(keys, rk, readd, af), unwind=6, timeout=2400 if thorough else 1500,
                        desc=nm + '; symbolic values, query bytes (all 256) and query length <= 3; getLongest/get/has/size vs linear scan, both representations'))
    qs.append(Query('destroy', L, os.path.join(H, 'h_longest.c'), cfg_defs(['ab', 'a'], 'ab', None, 0) + ['DESTROY'], unwind=6, timeout=1500,
                    desc='as above plus destruction of the trie (no invalid free)'))
    for q in qs:
        q.witness_vectors = [{'kval': [5, 9, 3], 'qb': [97, 98, 100, 0], 'qlen': 3, 'rval': 4}, {'kval': [1, 2, 3], 'qb': [98, 97, 0, 0], 'qlen': 2, 'rval': 4}]
    for q in qs:
        # libstdc++'s red-black tree forms `header + 0` from a possibly-null node pointer: nullptr + 0 is well defined in C++,
        # CBMC's pointer-overflow check (a C rule) flags it; no sanitizer confirms it.  The check is off for this property.
        q.no_ptr_overflow = True; q.backend = 'cadical'
    if ctx.only:
        qs = [q for q in qs if re.search(ctx.only, q.name)]
    vecs = [{'kval': [5, 9], 'qb': [97, 98, 100, 0], 'qlen': 3}, {'kval': [1, 2], 'qb': [97, 0, 0, 0], 'qlen': 1}, {'kval': [7, 8], 'qb': [98, 97, 98, 0], 'qlen': 3}]
    C.selftest(ctx, L, os.path.join(H, 'h_longest.c'), cfg_defs(['ab', 'a'], None, None, 0), vecs, 'st')
    C.run_queries(ctx, qs)
    ctx.bounds = {'key sets': '%d concrete configurations (keys of length 1..3 over {a,b,c}; optional remove and re-add; autoFreeze on/off)' % len(qs),
                  'symbolic per configuration': 'stored values (32-bit), query bytes (all 256 values, NUL-terminated), query length 0..3',
                  'unwind': 6, 'outside': 'keys longer than 3, more than 3 keys, symbolic key bytes (std::map pointers become symbolic and symbolic execution does not finish), the empty key, trie copy/assignment'}
    ctx.assumptions += ['queries are NUL-terminated C strings (trieNode::get reads c[length] before testing the length)',
                        'libstdc++ red-black tree rebalancing replaced by an unbalanced BST model (lift/rbtree_model.c); only the native replay uses the real tree',
                        'operator new never fails']
    return C.finish(ctx)


def relift(ctx):
    return C.lift(ctx, 'C28', os.path.join(H, 'wrap.cpp'), ROOTS, models=[os.path.join(C.LIFT, 'rbtree_model.c')], retype=RETYPE, libocca=True)
