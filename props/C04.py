"""C04 memory-pool accounting matches its live reservations (E1, bounded histories; see props/pool.py)"""
from props import pool


def relift(ctx):
    return pool.relift(ctx)


def run(ctx):
    return pool.run(ctx, 'C04', 'CHECK_C04')
