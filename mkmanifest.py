#!/usr/bin/env python3
"""regenerates MANIFEST.json from the table below (kept in one place so that it is always valid)"""
import json, os
V = os.path.dirname(os.path.abspath(__file__))
E1 = 'lift'
E1N = "Trusted: clang-14 IR as the semantics of the C++ source, the own IR->C translator lift/ll2c.py (validated each run on concrete vectors against the g++ build of the real functions), CBMC 6.11 + CaDiCaL, lift/models.c (operator new never fails, C++ exceptions as a pending flag), occa::error modelled as a thrown exception, std::stringstream stubbed out."
E2 = 'emitted'
E2NOTE = 'Trusted: CBMC 6.11 (C front end + CaDiCaL), the lexical normaliser vlib/okl.py (deletes backend decoration, maps thread-index builtins to harness globals, turns the emitted launch call into a bounded grid loop = the documented launch model), the host compiler for native replay. The translator is the real bin/occa rebuilt from /repo on every run. The program quantifier is enumerated by a generator (stated in evidence); the solver covers all run-time values of each program inside the stated ranges.'
E2TECH = 'translation validation by bounded model checking (CBMC/SAT): code emitted by the real occa translator vs. the sequential reading of the OKL source on symbolic run-time values; counterexamples replayed natively on the emitted code'
CLAIMED = {
 'C27': dict(level='model_checking', engine=E1,
   text='CBMC (SAT) decides, over the real hash_t code lifted from clang IR, that fromString(getFullString(h))==h and that getString(h) is the 16-char prefix of getFullString(h) for all 2^256 hash values and 7 object histories (fresh, copied, assigned, re-queried, XOR results); that ==,!=,<,^ are consistent on all pairs; and that occa::hash executes no signed overflow/shift/bounds UB on every byte string up to the bound. Bounded only in the length of hashed byte strings (<=4 quick, <=8 thorough).',
   note='Trusted: clang-14 IR as the semantics of the C++ source, the own IR->C translator (validated each run by running concrete vectors through the lifted C and the g++ build), CBMC 6.11, models.c (operator new never fails, EH runtime as a pending flag), std::stringstream stubbed out. Outside: hash_t::random, hashFile (I/O), strings longer than the bound.',
   technique='bounded model checking (CBMC/SAT) of the real functions lifted from LLVM IR; counterexamples replayed on the g++/ASan/UBSan build',
   design='5/C27'),
}
CLAIMED.update({
 'C17': dict(level='translation_validation', engine=E2, technique=E2TECH, note=E2NOTE, design='5/C17',
   text='For every generated @outer/@inner loop header (all four comparisons, both operand orders, ++/--/+=/-= with literal and run-time steps, operand expressions of every precedence class, 1-4 loop levels) the real occa translator is run for Serial, OpenMP, CUDA, HIP, OpenCL, Metal and DPC++, and CBMC decides that the emitted code (kept loops, or launcher dimensions + index reconstruction executed over the whole grid) executes the body for exactly the multiset of iterator values of the sequential loop, for ALL run-time operand values in the stated range, trip counts up to the stated bound.'),
 'C18': dict(level='translation_validation', engine=E2, technique=E2TECH, note=E2NOTE, design='5/C18',
   text='For every generated @tile loop (tile sizes literal and run-time, steps, directions, comparisons, the four attribute forms, check=true/false, nested 2-D tiling) CBMC decides that the code emitted by the real translator visits exactly the iterator values of the untiled loop, each once, for all run-time bounds/steps/tile sizes in the stated ranges (check=false: whenever the trip count is a multiple of the tile size).'),
 'C19': dict(level='translation_validation', engine=E2, technique=E2TECH, note=E2NOTE, design='5/C19',
   text='For @dim arities 1-4, every @dimOrder permutation and index/dimension arguments from every C operator class, CBMC decides that the subscript emitted by the real translator equals the documented mixed-radix formula with every argument evaluated as a complete expression, stays inside [0, prod D) and is injective on in-range index tuples, for all run-time index and dimension values in the stated ranges.'),
 'C15': dict(level='translation_validation', engine=E2, technique=E2TECH, note=E2NOTE + ' For C15 CBMC\'s undefined-behaviour checks are off (both texts get the same bit-vector semantics) and the value ranges keep divisors non-zero; validity of the printed text as C and the parse-print fixpoint are concrete side checks.', design='5/C15',
   text='About a thousand C expressions and statements (every ordered pair of the 18 binary operators ungrouped and in both groupings; unary, dereference, subscript, ternary, comma, cast and literal forms incl. escaped quotes; assignments and increments; declarations; if/else chains with dangling else; loops; switch) are parsed and printed by the real occa printer; CBMC decides that original and printed text leave identical values in every output and variable for ALL values of the variables in the stated ranges. The printed text must compile wherever the original does and must print identically when parsed again.'),
 'C20': dict(level='translation_validation', engine=E2, technique=E2TECH, note=E2NOTE + ' Barrier kernels on launch-model backends run phase by phase (code between two barriers for all threads of a block, per-thread copies of the variables declared around the barriers); atomic builtins are the plain update under this sequential emulation.', design='5/C20',
   text='A corpus of OKL kernels covering nested and sibling @outer/@inner loops, scalar and pointer arguments of several types, @restrict, helper functions, local declarations and control flow, @exclusive, @shared with @barrier (1-D and 2-D), @atomic, @max_inner_dims, @nobarrier, @simd_length, @tile (1-D, 2-D) and @dim/@dimOrder is translated by the real occa for all seven backends; CBMC decides that every output array equals what the sequential reading of the kernel leaves, for ALL array contents and scalar arguments in the stated sizes/ranges, and that no access leaves the arrays (bounds checks on objects of exactly the declared size).'),
 'C21': dict(level='translation_validation', engine=E2, technique='bounded model checking (CBMC/SAT) of the instrumented OpenMP translation: two-iteration non-interference with a symbolic watched location, plus text equality with the Serial translation modulo pragmas', note=E2NOTE + ' Accesses are recognised lexically (subscripts/dereferences of non-const pointer parameters, kernel-local pointers, and variables declared outside the parallel loop); any access through a non-const pointer counts as a write. Determinism follows from race freedom + identical text (iterations commute); atomic/critical sections are assumed to hold commutative updates; the OpenMP runtime is trusted.', design='5/C21',
   text='For every corpus kernel the OpenMP translation must equal the Serial translation except for `#pragma omp` lines, and CBMC decides, for ALL array contents/scalar arguments in the stated ranges and for a symbolic watched location, that no location is touched by two different iterations of a `#pragma omp parallel for` loop unless every such access is inside `omp atomic`/`omp critical`; variables declared inside the loop body (the lowered @exclusive/@shared storage) are private by construction and variables declared outside it are watched like arrays. A deliberately interfering kernel must be flagged on every run (self-test of the detector).'),
 'C14': dict(level='model_checking', engine=E1, technique='bounded model checking (CBMC/SAT) of the real occa::primitive operators lifted from LLVM IR against CBMC\'s own C semantics of the same operator; counterexamples replayed on the g++ build', note='Trusted: clang-14 IR as the semantics of the C++ source, the own IR->C translator lift/ll2c.py (validated each run by running concrete vectors through the lifted C and the g++ build of the real functions), CBMC 6.11 + CaDiCaL, lift/models.c (operator new never fails, C++ exceptions as a pending flag), occa::error modelled as a thrown exception, std::stringstream stubbed out.' + ' Oracle: C and C++ agree on integer promotion, usual arithmetic conversions and these operators (comparison/logical results mapped to bool). Outside: literal typing (primitive::load), short-circuit evaluation in the expression nodes, int8/int16 operands, float add/sub/mul/div values (quick), full-width multiply/divide VALUES (type and definedness are decided for all values, values for operands in 0..15 / 0..63: multiplier equivalence is SAT-hard).', design='5/C14',
   text='For each of the 18 binary and 4 unary operators of constant folding, CBMC decides over symbolic operand TYPE tags (bool, int, unsigned, long, unsigned long, float, double) and symbolic full-width operand values that occa returns exactly the value bits and the type (signedness and width) that C++ computes, for every application whose C++ result is defined, and raises an error exactly for operand types C++ rejects. One application per query: results are again primitives of the covered types, so expression trees follow by induction on the tree.'),
 'C23': dict(level='model_checking', engine=E1, technique='bounded model checking (CBMC/SAT) of occa::range::length() lifted from LLVM IR against the sequential loop', note='Trusted: clang-14 IR as the semantics of the C++ source, the own IR->C translator lift/ll2c.py (validated each run by running concrete vectors through the lifted C and the g++ build of the real functions), CBMC 6.11 + CaDiCaL, lift/models.c (operator new never fails, C++ exceptions as a pending flag), occa::error modelled as a thrown exception, std::stringstream stubbed out.' + ' NARROW CLAIM: only the range length and element formula are decided; occa::array operations, reductions, tile parameters and occa::forLoop build OKL source through occa::json/scope/device objects and JIT-compile it, which the lifted-IR route cannot execute.', design='5/C23',
   text='CBMC decides for all start/end/step values in the stated range (both signs, empty and wrong-direction ranges, step != 0) that range::length() equals the number of values the sequential loop takes and that element k is start + step*k, with signed-overflow checks on the real code. The array/reduction/forLoop part of the property is outside this check (see level_note).'),
 'C29': dict(level='model_checking', engine=E1, technique='bounded model checking (CBMC/SAT) of the real C-API conversion functions lifted from LLVM IR; counterexamples replayed on the g++ build', note='Trusted: clang-14 IR as the semantics of the C++ source, the own IR->C translator lift/ll2c.py (validated each run by running concrete vectors through the lifted C and the g++ build of the real functions), CBMC 6.11 + CaDiCaL, lift/models.c (operator new never fails, C++ exceptions as a pending flag), occa::error modelled as a thrown exception, std::stringstream stubbed out.' + ' Outside: strings, JSON values and handle lifetimes through the C API (heap + occa::json containers), occaFree.', design='5/C29',
   text='For the 19 scalar constructors of the C API (symbolic selector) and all 2^64 argument bit patterns CBMC decides that the occaType carries the same C type tag, byte size and value bits, that occaType -> occa::primitive -> occaType (untyped and typed) returns the identical occaType for the numeric constructors, and that the kernel-argument conversion yields one non-pointer argument of the same size and bytes for every constructor incl. occaBool.'),
 'C10': dict(level='model_checking', engine=E1, technique='bounded model checking (CBMC/SAT) of dtype_t::canBeCastedTo/isCyclic lifted from LLVM IR against a reference rule', note=E1N + ' PARTIAL CLAIM: only the cast-compatibility rule on flattened dtype vectors is decided. Outside: extraction of argument metadata by the parser, the fresh-vs-cached clause (parser + build.json I/O), modeKernel_t::setupRun itself (needs a kernel object with occa::json properties), flattening of struct/tuple/union trees, the byte wildcard. dtype objects are zero-initialised raw storage with the flattened vectors set directly (private members opened in the wrapper TU).', design='5/C10',
   text='For every pair of flattened dtype vectors of lengths 1..4 (thorough 1..6) over three distinct leaf dtypes, with symbolic leaf choices, CBMC decides that canBeCastedTo answers exactly "equal, or the longer is a whole-number repetition of the shorter", symmetrically and without division by zero or out-of-bounds access; a dtype that flattens to no entries is never castable to a non-empty one and asking does not crash.'),
 'C01': dict(level='model_checking', engine=E1, technique='exhaustive one-step transition enumeration, each step discharged by CBMC on the real handle code lifted from LLVM IR (invariant + reference model + memory safety); induction over the invariant gives histories of any length', note=E1N + ' States, operations and operands are CONCRETE and enumerated exhaustively (3 handles, 2 objects): a single symbolic handle index makes every ring pointer symbolic and CBMC does not finish within minutes, so the solver contributes the per-step verdict (use-after-free, double free, invalid pointers, invariant), not a quantifier over values. Cut: the buffer layer below modeMemory_t (modeBuffer == NULL; json/device functions of the buffer double are empty models). Only occa::memory handles are lifted; the other handle types use the same gc::ring_t<T> template.', design='5/C01',
   text='From every valid state shape of 3 occa::memory handles over 2 backend objects (built with the real constructors, object reference counted or not) every operation - assignment, copy construction, scope exit, swap, free(), dontUseRefs() - on every operand pair runs once on the real code under CBMC; afterwards each live object\'s ring must hold exactly the handles that refer to it, isInitialized() must match the reference model (false after free()), destructor counts must be exactly what the model predicts, no freed object may be touched (CBMC pointer checks), and after all handles go out of scope every reference-counted object has been destroyed exactly once.'),
})
NA = {}
def load_na():
    na = {}
    for ln in open(os.path.join(V, 'not_applicable.txt')):
        ln = ln.strip()
        if not ln or ln.startswith('#'): continue
        pid, reason = ln.split(' ', 1)
        na[pid] = reason
    return na
def main():
    na = load_na()
    checks = []
    for pid in sorted(CLAIMED):
        c = CLAIMED[pid]
        checks.append({
          'property_id': pid,
          'quick_cmd': './check %s --tier quick' % pid,
          'thorough_cmd': './check %s --tier thorough' % pid,
          'evidence_file': 'evidence/%s.json' % pid,
          'replay_cmd_template': './check %s --replay {path}' % pid,
          'engine': c['engine'],
          'level_claimed': {'category': c['level'], 'text': c['text'], 'design_ref': 'DESIGN.md section ' + c['design']},
          'level_note': c['note'],
          'technique': c['technique'],
        })
    ids = [json.loads(l)['id'] for l in open(os.path.join(V, 'properties.jsonl'))]
    nal = [{'property_id': p, 'reason': na.get(p, 'check not built yet in this round (see DESIGN.md section 5 for the planned encoding)')} for p in ids if p not in CLAIMED]
    m = {
      'version': 1,
      'setup_cmd': 'python3 -m compileall -q vlib props lift okl >/dev/null 2>&1; cbmc --version >/dev/null && clang++-14 --version >/dev/null && echo setup-ok',
      'hooks': {'guard': 'LIBOCCA_OCCA_VERIF', 'enable': 'checks compile the /repo sources they lift with -DLIBOCCA_OCCA_VERIF (vlib/common.py CLANG_FLAGS); no hook is currently needed in /repo: all instrumentation lives in /verif (harness subclasses, -include prelude)',
                'baseline_off_cmd': 'cmake -S /repo -B /repo/_build -G Ninja >/dev/null && cmake --build /repo/_build -j16 >/dev/null && ctest --test-dir /repo/_build -j8 --timeout 900',
                'source_commits': [], 'add_only': True},
      'engines': [
        {'name': 'lift', 'path': 'lift/ll2c.py', 'serves_properties': sorted(p for p in CLAIMED if CLAIMED[p]['engine'] == 'lift'),
         'kind_free_text': 'real C++ -> clang-14 LLVM IR -> C (own translator) -> CBMC 6.11 (SAT/SMT); harnesses in harness/<id>/'},
        {'name': 'emitted', 'path': 'okl/', 'serves_properties': sorted(p for p in CLAIMED if CLAIMED[p]['engine'] == 'emitted'),
         'kind_free_text': 'OKL program -> real `occa translate` built from /repo -> emitted C-like source -> CBMC equivalence with the sequential reading over symbolic run-time values'},
      ],
      'checks': checks,
      'notes': 'Technique family: solver-based checking of the real code. Exit codes: 0 held, 1 VIOLATION (replayed natively), 2 inconclusive/framework error (never reported as success). known_findings.txt lists recorded and fixed defects.',
      'not_applicable': nal,
    }
    json.dump(m, open(os.path.join(V, 'MANIFEST.json'), 'w'), indent=1)
    print('claimed', len(checks), 'not_applicable', len(nal))
main()
