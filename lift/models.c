/* Trusted C models of the externals that remain after lifting (CBMC side).
 * Allocation failure is out of scope for every property: operator new never fails. */
#include <stddef.h>
int __exc_pending; char* __exc_obj;
void *malloc(size_t); void free(void*); void *memset(void*,int,size_t);
char* _Znwm(unsigned long n){ char*p=malloc(n); __CPROVER_assume(p!=0); return p; }
char* _Znam(unsigned long n){ char*p=malloc(n); __CPROVER_assume(p!=0); return p; }
void _ZdlPv(char*p){ free(p); }
void _ZdaPv(char*p){ free(p); }
void _ZdlPvm(char*p, unsigned long n){ free(p); }
void _ZSt17__throw_bad_allocv(void){ __exc_pending=1; }
void _ZSt28__throw_bad_array_new_lengthv(void){ __exc_pending=1; }
void _ZSt20__throw_length_errorPKc(char*m){ __exc_pending=1; }
void _ZSt19__throw_logic_errorPKc(char*m){ __exc_pending=1; }
void _ZSt20__throw_out_of_rangePKc(char*m){ __exc_pending=1; }
void _ZSt24__throw_out_of_range_fmtPKcz(char*m, ...){ __exc_pending=1; }
void _ZSt21__glibcxx_assert_failPKciS0_S0_(char*a,unsigned int b,char*c,char*d){ __CPROVER_assert(0,"libstdc++ assertion (container misuse)"); __CPROVER_assume(0); }
void _ZSt9terminatev(void){ __CPROVER_assert(0,"std::terminate"); __CPROVER_assume(0); }
char* __cxa_allocate_exception(unsigned long n){ char*p=malloc(n); __CPROVER_assume(p!=0); return p; }
void __cxa_free_exception(char*p){ }
void __cxa_throw(char*o, char*ti, char*d){ __exc_pending=1; __exc_obj=o; }
char* __cxa_begin_catch(char*o){ __exc_pending=0; return o; }
void __cxa_end_catch(void){}
void __cxa_pure_virtual(void){ __CPROVER_assert(0,"pure virtual call"); }
void __cxa_rethrow(void){ __exc_pending=1; }
int __cxa_guard_acquire(char*g){ return *g == 0; }
void __cxa_guard_release(char*g){ *g = 1; }
void __cxa_guard_abort(char*g){ }
int __cxa_atexit(char*f, char*a, char*d){ return 0; }
void verif_sstream_str_used(void){ }

/* libc string functions as explicit loops (bounded by --unwind like everything else) */
unsigned long strlen(const char *s){ unsigned long n = 0; while (s[n]) n++; return n; }
int memcmp(const void *a, const void *b, size_t n){ const unsigned char *x = a, *y = b; for (size_t i = 0; i < n; i++) { if (x[i] != y[i]) return x[i] < y[i] ? -1 : 1; } return 0; }
int strcmp(const char *a, const char *b){ size_t i = 0; while (a[i] && a[i] == b[i]) i++; return (unsigned char) a[i] - (unsigned char) b[i]; }
char* memchr(const char *s, int c, size_t n){ for (size_t i = 0; i < n; i++) if ((unsigned char) s[i] == (unsigned char) c) return (char*) s + i; return 0; }

/* vtables of the C++ ABI type_info classes: only their addresses are taken (by typeinfo objects of thrown types) */
char* G__ZTVN10__cxxabiv117__class_type_infoE[4];
char* G__ZTVN10__cxxabiv120__si_class_type_infoE[4];
char* G__ZTVN10__cxxabiv121__vmi_class_type_infoE[4];
