// C02 wrappers: the real request validation of occa::memory (slice / copyFrom / copyTo, src/core/memory.cpp) and
// modeMemory_t::slice (src/occa/internal/core/memory.cpp).  The backend below is a recording double: it notes the byte
// ranges it is asked to copy or slice, so that "what reaches the backend" can be compared with a byte-array model, and
// "nothing reaches the backend" with "no memory was modified".
#include <string>
#include <vector>
#include <map>
#include <iostream>
#include <sstream>
#define private public
#define protected public
#include "core/memory.cpp"
#include "occa/internal/core/memory.cpp"
#include "occa/internal/core/buffer.cpp"
#include "dtype/dtype.cpp"
#include "occa/internal/utils/gc.cpp"
#include "errstub.hpp"
#include <cstring>
#include <new>
#define VX extern "C" __attribute__((noinline))
using occa::memory;

static int g_calls; static long g_bytes, g_off, g_off2; static int g_kind;    // last backend request
struct vmem : public occa::modeMemory_t {
  vmem(occa::modeBuffer_t *b, occa::udim_t size_, occa::dim_t off_) : occa::modeMemory_t(b, size_, off_) {}
  void* getKernelArgPtr() const { return 0; }
  void copyTo(void *, const occa::udim_t bytes, const occa::udim_t off, const occa::json &) const { g_calls++; g_kind = 1; g_bytes = (long) bytes; g_off = (long) off; }
  void copyFrom(const void *, const occa::udim_t bytes, const occa::udim_t off, const occa::json &) { g_calls++; g_kind = 2; g_bytes = (long) bytes; g_off = (long) off; }
  void copyFrom(const occa::modeMemory_t *, const occa::udim_t bytes, const occa::udim_t doff, const occa::udim_t soff, const occa::json &) { g_calls++; g_kind = 3; g_bytes = (long) bytes; g_off = (long) doff; g_off2 = (long) soff; }
  void* unwrap() { return 0; }
};
struct vbuf : public occa::modeBuffer_t {
  vbuf(occa::modeDevice_t *d, occa::udim_t sz) : occa::modeBuffer_t(d, sz, occa::json()) {}
  occa::modeMemory_t* slice(const occa::dim_t off, const occa::udim_t bytes) { g_calls++; g_kind = 4; g_bytes = (long) bytes; g_off = (long) off; return new vmem(this, bytes, off); }
  void* unwrap() { return 0; }
  bool needsFree() const { return false; }      // the buffer outlives the requests (its lifetime is not the subject; cuts the ~modeMemory_t <-> ~modeBuffer_t recursion)
};
struct rawdt { alignas(occa::dtype_t) char b[sizeof(occa::dtype_t)]; };
static rawdt g_dt[2];
static vbuf *g_buf;
static memory *g_m[2];

// memory 0: `size0` bytes at byte offset `base0` of the buffer, element size d0; memory 1 likewise (init1 == 0: left uninitialised)
VX void m_setup(long bufsize, long base0, long size0, int d0, int init1, long base1, long size1, int d1) {
  struct fakedev_t { alignas(occa::modeDevice_t) char b[sizeof(occa::modeDevice_t)]; };
  static fakedev_t fd;
  memset(fd.b, 0, sizeof(fd.b));
  g_buf = new vbuf(reinterpret_cast<occa::modeDevice_t*>(fd.b), (occa::udim_t) bufsize);
  for (int k = 0; k < 2; k++) {
    memset(g_dt[k].b, 0, sizeof(g_dt[k].b));
    occa::dtype_t *dt = reinterpret_cast<occa::dtype_t*>(g_dt[k].b);
    dt->bytes_ = k ? d1 : d0; dt->registered = true;
  }
  g_m[0] = new memory(new vmem(g_buf, (occa::udim_t) size0, base0));
  g_m[0]->getModeMemory()->dtype_ = reinterpret_cast<occa::dtype_t*>(g_dt[0].b);
  if (init1) {
    g_m[1] = new memory(new vmem(g_buf, (occa::udim_t) size1, base1));
    g_m[1]->getModeMemory()->dtype_ = reinterpret_cast<occa::dtype_t*>(g_dt[1].b);
  } else {
    g_m[1] = new memory();
  }
  g_calls = 0; g_kind = 0; g_bytes = 0; g_off = 0; g_off2 = 0;
}
// each returns 0 = returned normally, 1 = occa::exception raised
VX int m_copy_from_ptr(long count, long offset) { char src[1]; try { g_m[0]->copyFrom((const void*) src, count, offset); return 0; } catch (...) { return 1; } }
VX int m_copy_to_ptr(long count, long offset) { char dst[1]; try { g_m[0]->copyTo((void*) dst, count, offset); return 0; } catch (...) { return 1; } }
VX int m_copy_from_mem(long count, long doff, long soff) { try { g_m[0]->copyFrom(*g_m[1], count, doff, soff); return 0; } catch (...) { return 1; } }
VX int m_copy_to_mem(long count, long doff, long soff) { try { g_m[0]->copyTo(*g_m[1], count, doff, soff); return 0; } catch (...) { return 1; } }
VX int m_slice(long offset, long count, long *newsize, long *newoff, int *inited) {
  try { memory s = g_m[0]->slice(offset, count); *inited = s.isInitialized() ? 1 : 0; if (s.isInitialized()) { *newsize = (long) s.getModeMemory()->size; *newoff = (long) s.getModeMemory()->offset; } s.dontUseRefs(); return 0; } catch (...) { return 1; }
}
VX int m_calls(void) { return g_calls; }
VX int m_kind(void) { return g_kind; }
VX long m_bytes(void) { return g_bytes; }
VX long m_off(void) { return g_off; }
VX long m_off2(void) { return g_off2; }
