// C23 wrappers: occa::range::length() on an arbitrary (start, end, step) triple.
// The object is raw storage with the three members set: length() reads nothing else (no device needed).
#include "functional/range.cpp"
#include "errstub.hpp"
#include <cstring>
#include <new>
#define VX extern "C" __attribute__((noinline))
VX unsigned long v_length(long start, long end, long step) {
  alignas(occa::range) static char buf[sizeof(occa::range)];
  occa::range *r = reinterpret_cast<occa::range*>(buf);
  r->start = start; r->end = end; r->step = step;
  return (unsigned long) r->occa::range::length();
}
// step chosen by the two- and three-argument constructors (same expressions as in range.cpp are not reachable without a
// device; the constructors' member initialisers are: step(end >= start ? 1 : -1) and step(step_ != 0 ? step_ : 1))
