"""C24 JSON dump and parse round-trip every value (E1: string values and object keys)."""
import os, re
from vlib import common as C
from vlib.common import Query
H = os.path.join(C.VERIF, 'harness', 'C24')
ROOTS = ['j_string_roundtrip', 'j_key_roundtrip']


def relift(ctx):
    return C.lift(ctx, 'C24', os.path.join(H, 'wrap.cpp'), ROOTS, models=[os.path.join(C.LIFT, 'rbtree_model.c')], libocca=True)


def run(ctx):
    thorough = ctx.tier == 'thorough'
    L = relift(ctx)
    known = dict(C.load_known('C24'))
    hs = os.path.join(H, 'h_string.c')
    NB = 4 if thorough else 3
    qs = []
    for nm, extra in (('string-value', []), ('object-key', ['KEY'])):
        d = ['NB=%d' % NB] + extra
        if 'nul-byte' in known:
            qs.append(Query(nm, L, hs, d + ['NO_NUL'], unwind=18, timeout=1200 if thorough else 150, backend='cadical', desc='%s of <= %d arbitrary non-NUL bytes: parse(dump(x)) == x' % (nm, NB)))
        else:
            qs.append(Query(nm, L, hs, d, unwind=18, timeout=1200 if thorough else 150, backend='cadical', desc='%s of <= %d arbitrary bytes: parse(dump(x)) == x' % (nm, NB)))
    if 'nul-byte' in known:
        qs.append(Query('string-value/known', L, hs, ['NB=1'], unwind=18, timeout=400, backend='cadical', expect='fail', known='key=nul-byte ' + known['nul-byte'], desc='re-confirm listed finding'))
    for q in qs:
        q.no_ptr_overflow = True
    if ctx.only:
        qs = [q for q in qs if re.search(ctx.only, q.name)]
    C.selftest(ctx, L, hs, ['NB=%d' % NB], [dict(s=[97, 34, 92], n=3), dict(s=[10, 9, 47], n=3), dict(s=[0, 0, 0], n=0)], 'str')
    C.run_queries(ctx, qs)
    ctx.bounds = {'strings': 'every byte string of length <= %d (all 255 non-NUL byte values) as a JSON string value and as the key of a one-field object' % NB,
                  'outside': 'numbers (primitive::toString formats through iostream/libc: not encodable), booleans/null (constant text), nested arrays and objects (structural recursion over heap containers, no symbolic content), indentation other than 0, strings longer than the bound'}
    ctx.assumptions += ['operator new never fails', 'libstdc++ red-black tree rebalancing replaced by an unbalanced BST model (lift/rbtree_model.c) for the one-field object']
    return C.finish(ctx)
