// C29 wrappers: the real C-API scalar conversions (src/occa/internal/c/types.cpp) reached through POD entry points.
#include "occa/internal/c/types.cpp"
#include "core/kernelArg.cpp"
#include "types/primitive.cpp"
#include "errstub.hpp"
#include <cstring>
#define VX extern "C" __attribute__((noinline))

// out[0]=magicHeader, out[1]=type, out[2]=bytes, out[3]=needsFree, out[4]=value bits (zero-extended to 64)
static void dump(const occaType &t, unsigned long *out) {
  out[0] = (unsigned long) (unsigned int) t.magicHeader; out[1] = (unsigned long) t.type; out[2] = t.bytes; out[3] = t.needsFree ? 1 : 0;
  unsigned long v = 0;
  switch (t.bytes) { case 1: v = t.value.uint8_; break; case 2: v = t.value.uint16_; break; case 4: v = t.value.uint32_; break; default: v = t.value.uint64_; }
  out[4] = v;
}
static occaType make(int k, unsigned long bits) {
  switch (k) {
  case 0:  return occaBool((bits & 1) != 0);
  case 1:  return occaInt8((int8_t) bits);
  case 2:  return occaUInt8((uint8_t) bits);
  case 3:  return occaInt16((int16_t) bits);
  case 4:  return occaUInt16((uint16_t) bits);
  case 5:  return occaInt32((int32_t) bits);
  case 6:  return occaUInt32((uint32_t) bits);
  case 7:  return occaInt64((int64_t) bits);
  case 8:  return occaUInt64((uint64_t) bits);
  case 9:  { float f; uint32_t b = (uint32_t) bits; memcpy(&f, &b, 4); return occaFloat(f); }
  case 10: { double d; memcpy(&d, &bits, 8); return occaDouble(d); }
  case 11: return occaChar((char) bits);
  case 12: return occaUChar((unsigned char) bits);
  case 13: return occaShort((short) bits);
  case 14: return occaUShort((unsigned short) bits);
  case 15: return occaInt((int) bits);
  case 16: return occaUInt((unsigned int) bits);
  case 17: return occaLong((long) bits);
  case 18: return occaULong((unsigned long) bits);
  default: return occaPtr((const void*) bits);
  }
}
// constructor -> fields
VX int v_make(int k, unsigned long bits, unsigned long *out) {
  try { occaType t = make(k, bits); dump(t, out); return 0; } catch (...) { return -1; }
}
// constructor -> occa::primitive -> occaType
VX int v_roundtrip(int k, unsigned long bits, unsigned long *out) {
  try { occaType t = make(k, bits); occa::primitive p = occa::c::primitive(t); occaType u = occa::c::newOccaType(p); dump(u, out); return 0; } catch (...) { return -1; }
}
// constructor -> primitive converted to the value's own type tag -> occaType of that type
VX int v_roundtrip_typed(int k, unsigned long bits, unsigned long *out) {
  try { occaType t = make(k, bits); occa::primitive p = occa::c::primitive(t, t.type); occaType u = occa::c::newOccaType(p, t.type); dump(u, out); return 0; } catch (...) { return -1; }
}
// kernel-argument conversion: the argument carries the same bytes and size
VX int v_kernelarg(int k, unsigned long bits, unsigned long *out) {
  try {
    occaType t = make(k, bits);
    occa::kernelArg a = occa::c::kernelArg(t);
    if (a.args.size() != 1) return -2;
    out[0] = a.args[0].size(); unsigned long v = 0; memcpy(&v, a.args[0].ptr(), a.args[0].size() <= 8 ? a.args[0].size() : 8); out[1] = v; out[2] = a.args[0].isPointer() ? 1 : 0;
    return 0;
  } catch (...) { return -1; }
}
