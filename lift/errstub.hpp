// occa::error / occa::warn for lifted units: an error is an exception the wrapper observes (message formatting is not the subject)
#include <occa/utils/logging.hpp>
struct verif_occa_error {};
namespace occa {
  void warn(const std::string &, const std::string &, const int, const std::string &) {}
  void error(const std::string &, const std::string &, const int, const std::string &) { throw verif_occa_error(); }
}
