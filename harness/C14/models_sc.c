/* C14 short circuit: the expression nodes of the harness carry no source token */
char* _ZN4occa4lang7token_t5cloneEPKS1_(char* t) { __CPROVER_assert(t == 0, "only null tokens occur in this harness"); return 0; }
