/* native side of vharness.h: replay values, output digest, exit status */
#include <stdio.h>
#include <stdlib.h>
#include <string.h>
int vfail_count = 0;
static struct { char name[64]; long idx; unsigned long v; int isf; double f; } vals[4096];
static int nvals = -1;
static void load(void) {
  nvals = 0;
  const char *p = getenv("VREPLAY");
  if (!p) return;
  FILE *f = fopen(p, "r");
  if (!f) { fprintf(stderr, "cannot open %s\n", p); exit(4); }
  char nm[64], kind[8], val[128]; long idx;
  while (fscanf(f, "%63s %ld %7s %127s", nm, &idx, kind, val) == 4 && nvals < 4096) {
    strcpy(vals[nvals].name, nm); vals[nvals].idx = idx;
    if (kind[0] == 'f') { vals[nvals].isf = 1; unsigned long b = strtoull(val, 0, 16); 
      if (kind[1] == '4') { unsigned int b4 = (unsigned int) b; float x; memcpy(&x, &b4, 4); vals[nvals].f = x; }
      else memcpy(&vals[nvals].f, &b, 8); }
    else { vals[nvals].isf = 0; vals[nvals].v = strtoull(val, 0, 16); }
    nvals++;
  }
  fclose(f);
}
unsigned long vreplay_get(const char *name, long idx) {
  if (nvals < 0) load();
  for (int i = 0; i < nvals; i++) if (!strcmp(vals[i].name, name) && vals[i].idx == idx) return vals[i].v;
  return 0;  /* inputs the trace does not mention do not matter: any value reproduces */
}
double vreplay_getf(const char *name) {
  if (nvals < 0) load();
  for (int i = 0; i < nvals; i++) if (!strcmp(vals[i].name, name)) return vals[i].f;
  return 0.0;
}
void vout(const char *name, long idx, unsigned long v) { printf("OUT %s %ld %lx\n", name, idx, v); }
int vharness_main(void);
int main(void) {
  int r = vharness_main();
  (void) r;
  fflush(stdout);
  return vfail_count ? 10 : 0;
}
__attribute__((weak)) void verif_sstream_str_used(void) {}
