/* fromString(getFullString(h)) == h for all 2^256 hash values; full string is 64 hex chars */
#include "vharness.h"
#include "C27_roots.h"
int main(void) {
  IN_ARR(int, h, 8);
  int out[8];
  for (int i = 0; i < 8; i++) out[i] = 0;
  int n = v_roundtrip((char*) h, (char*) out);
  OUT(n, n);
  VASSERT(n != -1, "no exception");
  VASSERT(n == 64, "full string has 64 characters");
  for (int i = 0; i < 8; i++) { OUTI(out, i, (unsigned) out[i]); VASSERT(out[i] == h[i], "fromString(getFullString(h)) == h"); }
  VREACH();
  return 0;
}
