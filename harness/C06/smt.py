#!/usr/bin/env python3-vt
"""C06 SMT query over the extracted key term.
stdin: JSON {leaves: [{kind:'const', text} | {kind:'prop', prop, pre, post, unset}], props: [...], vary: [...], all_set: bool}
The key is the XOR of H(leaf) over the leaves.  key(A) == key(B) for EVERY function H  <=>  every string occurs an even
number of times among the leaves of A and B together (XOR cancels equal pairs, nothing else).  The query asks for two
configurations A != B (property values: strings over {a,b} of length <= 2, set or -- unless all_set -- unset) with that property."""
import sys, json
import z3


def main():
    q = json.load(sys.stdin)
    props = q['props']; vary = set(q['vary'])
    s = z3.Solver()
    s.set('timeout', int(q.get('timeout_ms', 120000)))
    val = {}; isset = {}
    dom = z3.Loop(z3.Union(z3.Re('a'), z3.Re('b')), 0, 2)
    for side in 'AB':
        for p in props:
            v = z3.String('%s_%s' % (side, p)); b = z3.Bool('%s_set_%s' % (side, p))
            val[side, p] = v; isset[side, p] = b
            s.add(z3.InRe(v, dom))
            if q.get('all_set'):
                s.add(b)
    for p in props:
        if p not in vary:
            s.add(val['A', p] == val['B', p], isset['A', p] == isset['B', p])

    def leaf_str(side, lf):
        if lf['kind'] == 'const':
            return z3.StringVal(lf['text'])
        p = lf['prop']
        return z3.If(isset[side, p], z3.Concat(z3.StringVal(lf['pre']), val[side, p], z3.StringVal(lf['post'])), z3.StringVal(lf.get('unset', '')))
    LA = [leaf_str('A', lf) for lf in q['leaves']]
    LB = [leaf_str('B', lf) for lf in q['leaves']]
    allv = LA + LB
    for x in allv:
        s.add(z3.Sum([z3.If(y == x, 1, 0) for y in allv]) % 2 == 0)
    s.add(z3.Or([z3.Or(isset['A', p] != isset['B', p], z3.And(isset['A', p], val['A', p] != val['B', p])) for p in props if p in vary]))
    r = s.check()
    out = {'result': str(r), 'leaves': len(q['leaves'])}
    if r == z3.sat:
        m = s.model()
        cfg = {}
        for side in 'AB':
            cfg[side] = {p: (m.eval(val[side, p], model_completion=True).as_string() if z3.is_true(m.eval(isset[side, p], model_completion=True)) else None) for p in props}
        out['configs'] = cfg
    elif r == z3.unknown:
        out['detail'] = s.reason_unknown()
    json.dump(out, sys.stdout)


main()
