"""Shared machinery: scratch dirs, lifting (clang IR -> C), CBMC queries, native
replay, evidence, known findings.  stdlib only."""
import os, sys, json, re, subprocess, tempfile, shutil, time, hashlib, resource
from concurrent.futures import ThreadPoolExecutor

VERIF = os.path.dirname(os.path.dirname(os.path.abspath(__file__)))
REPO = os.environ.get('VERIF_REPO', '/repo')
LIFT = os.path.join(VERIF, 'lift')
REPLAY_DIR = os.environ.get('VERIF_REPLAY_DIR', os.path.join(VERIF, 'replay'))
NCPU = int(os.environ.get('VERIF_JOBS', str(os.cpu_count() or 4)))
MEM_KB = int(os.environ.get('VERIF_MEM_KB', str(12 * 1024 * 1024)))

CLANG_FLAGS = ['-std=c++17', '-O1', '-fno-vectorize', '-fno-slp-vectorize', '-fno-unroll-loops',
               '-D_GLIBCXX_ASSERTIONS', '-Wno-everything']      # E1 lifts the code as users build it: the (only) guarded hook, the hash trace, is off
CBMC_FLAGS = ['--unwinding-assertions', '--pointer-overflow-check', '--undefined-shift-check',
              '--signed-overflow-check', '--drop-unused-functions', '--no-malloc-may-fail',
              '--no-standard-checks', '--bounds-check', '--pointer-check', '--div-by-zero-check',
              '--pointer-primitive-check', '--object-bits', '12', '--malloc-fail-null']
# note: --no-standard-checks then explicit list, so that the set of checks is stated here and
# does not depend on CBMC defaults.  (--malloc-fail-null only names the failure mode; with
# --no-malloc-may-fail malloc never fails: allocation failure is outside every claim.)
CBMC_FLAGS.remove('--malloc-fail-null')


class Inconclusive(Exception):
    pass


def sh(cmd, timeout=None, cwd=None, env=None, mem_kb=None, stdin=None):
    """run, return (rc, stdout, stderr, seconds, maxrss_kb)"""
    def pre():
        if mem_kb:
            resource.setrlimit(resource.RLIMIT_AS, (mem_kb * 1024, mem_kb * 1024))
        os.setsid()
    t0 = time.time()
    p = subprocess.Popen(cmd, stdout=subprocess.PIPE, stderr=subprocess.PIPE, cwd=cwd, env=env,
                         preexec_fn=pre, stdin=subprocess.PIPE if stdin is not None else subprocess.DEVNULL)
    try:
        o, e = p.communicate(input=stdin, timeout=timeout)
        rc = p.returncode
    except subprocess.TimeoutExpired:
        try:
            os.killpg(p.pid, 9)
        except Exception:
            pass
        o, e = p.communicate()
        rc = 'timeout'
    ru = resource.getrusage(resource.RUSAGE_CHILDREN)
    return rc, o.decode('utf-8', 'replace'), e.decode('utf-8', 'replace'), time.time() - t0, ru.ru_maxrss


class Ctx:
    def __init__(self, pid, tier, seed):
        self.pid = pid
        self.tier = tier
        self.seed = seed
        self.t0 = time.time()
        base = os.environ.get('VERIF_SCRATCH', '/tmp')
        self.scratch = tempfile.mkdtemp(prefix='verif-%s-' % pid, dir=base)
        self.queries = []        # evidence records
        self.violations = []     # (description, replay path)
        self.known = []          # known-finding lines printed
        self.inconclusive = []
        self.functions = set()
        self.units = set()
        self.assumptions = []
        self.models = set()
        self.bounds = {}
        self.samples = []
        self.notes = []
        self.extra = {}
        self.level = 'model_checking'
        self.solver_s = 0.0
        self.selftests = 0

    def cleanup(self):
        shutil.rmtree(self.scratch, ignore_errors=True)

    def path(self, *a):
        p = os.path.join(self.scratch, *a)
        os.makedirs(os.path.dirname(p), exist_ok=True)
        return p


def gen_compiled_defines(ctx, sharable=0):
    """compiledDefines.hpp generated from the repo's template (as cmake would)."""
    d = ctx.path('inc%d' % sharable, 'occa', 'defines', 'compiledDefines.hpp')
    tpl = open(os.path.join(REPO, 'scripts/build/compiledDefinesTemplate.hpp.in')).read()
    vals = {'OCCA_OS': 'OCCA_LINUX_OS', 'OCCA_USING_VS': 0, 'OCCA_UNSAFE': 0, 'OCCA_OPENMP_ENABLED': 0,
            'OCCA_OPENCL_ENABLED': 0, 'OCCA_CUDA_ENABLED': 0, 'OCCA_HIP_ENABLED': 0, 'OCCA_METAL_ENABLED': 0,
            'OCCA_DPCPP_ENABLED': 0, 'OCCA_THREAD_SHARABLE_ENABLED': sharable, 'OCCA_MAX_ARGS': 128,
            'OCCA_SOURCE_DIR': '"%s"' % REPO, 'OCCA_BUILD_DIR': '"%s"' % ctx.scratch}
    out = []
    for ln in tpl.split('\n'):
        m = re.match(r'#cmakedefine01\s+(\w+)', ln)
        if m:
            out.append('#define %s %s' % (m.group(1), 1 if vals.get(m.group(1)) else 0)); continue
        m = re.match(r'#cmakedefine\s+(\w+)\s*(.*)', ln)
        if m:
            out.append('#define %s %s' % (m.group(1), vals[m.group(1)])); continue
        out.append(ln)
    open(d, 'w').write('\n'.join(out))
    # codegen headers: cmake copies scripts/codegen/*.in (COPYONLY) into <build>/include/codegen
    cg = os.path.join(os.path.dirname(os.path.dirname(os.path.dirname(d))), 'codegen')
    os.makedirs(cg, exist_ok=True)
    sd = os.path.join(REPO, 'scripts', 'codegen')
    for fn in os.listdir(sd):
        if fn.endswith('_codegen.in'):
            shutil.copy(os.path.join(sd, fn), os.path.join(cg, fn[:-3]))
    return os.path.dirname(os.path.dirname(os.path.dirname(d)))


def include_flags(ctx, sharable=0):
    inc = gen_compiled_defines(ctx, sharable)
    return ['-I' + inc, '-I' + os.path.join(REPO, 'include'), '-I' + os.path.join(REPO, 'src'), '-I' + LIFT]


class Lifted:
    pass


def lift(ctx, name, cpp, roots, defines=(), ub=False, models=(), sharable=0, prelude=True, extra_clang=(),
         no_inline=False, retype=None, libocca=False):
    """clang++ -> LLVM IR -> C.  Returns Lifted(c, h, ll, functions)."""
    ll = ctx.path(name, name + '.ll')
    cmd = ['clang++-14'] + CLANG_FLAGS + include_flags(ctx, sharable) + ['-D' + d for d in defines]
    if prelude:
        cmd += ['-include', os.path.join(LIFT, 'prelude.hpp')]
    cmd += list(extra_clang) + ['-S', '-emit-llvm', cpp, '-o', ll]
    rc, o, e, s, _ = sh(cmd, timeout=600)
    if rc != 0:
        raise Inconclusive('clang failed on %s: %s' % (cpp, e[-3000:]))
    c = ctx.path(name, name + '_gen.c')
    h = ctx.path(name, name + '_roots.h')
    cmd = [sys.executable, os.path.join(LIFT, 'll2c.py'), ll, '-o', c, '--header', h,
           '--models', ','.join([os.path.join(LIFT, 'models.c')] + list(models))]
    for r in roots:
        cmd += ['--root', r]
    if ub:
        cmd.append('--ub')
    for k, v in (retype or {}).items():
        cmd += ['--retype', '%s=%s' % (k, v)]
    rc, o, e, s2, _ = sh(cmd, timeout=600)
    if rc != 0:
        raise Inconclusive('ll2c failed on %s: %s' % (name, e[-3000:]))
    L = Lifted()
    L.c, L.h, L.ll, L.dir, L.cpp, L.name = c, h, ll, os.path.dirname(c), cpp, name
    L.defines = list(defines); L.sharable = sharable; L.prelude = prelude; L.extra_clang = list(extra_clang)
    info = json.loads(open(c + '.json').read())
    L.functions = info['functions']
    L.unmodelled = info['unmodelled']
    L.models = [os.path.join(LIFT, 'models.c')] + list(models)
    for f in info['functions']:
        ctx.functions.add(f)
    ctx.units.add(os.path.relpath(cpp, VERIF) if cpp.startswith(VERIF) else cpp)
    for mm in L.models:
        ctx.models.add(os.path.relpath(mm, VERIF))
    L.native = None
    L.libocca = libocca
    L.native_gen = None
    return L


def demangle(names):
    try:
        rc, o, e, s, _ = sh(['c++filt'], stdin='\n'.join(names).encode(), timeout=60)
        return o.split('\n')[:len(names)]
    except Exception:
        return list(names)


# ---------------------------------------------------------------- CBMC

class QResult:
    def __init__(self):
        self.status = None      # 'pass' | 'fail' | 'inconclusive'
        self.failed = []        # list of (property name, description, source)
        self.seconds = 0.0
        self.rss_kb = 0
        self.reason = ''
        self.trace_inputs = None
        self.nprops = 0
        self.backend = ''


def parse_cbmc_json(txt):
    try:
        data = json.loads(txt)
    except Exception:
        # truncated output: try to recover
        return None
    return data


def cbmc_run(ctx, files, defines=(), unwind=None, unwindset=(), timeout=120, backend=None, trace=False,
             extra=(), incs=(), prop=None, mem_kb=None, no_ub=False, no_ptr_overflow=False):
    cmd = ['cbmc'] + list(files) + ['-I' + LIFT] + ['-I' + i for i in incs] + ['-D' + d for d in defines]
    flags = list(CBMC_FLAGS)
    if no_ub:
        flags = [f for f in flags if f not in ('--signed-overflow-check', '--undefined-shift-check', '--pointer-overflow-check', '--div-by-zero-check')]
    if no_ptr_overflow:
        flags = [f for f in flags if f != '--pointer-overflow-check']
    cmd += flags + ['--json-ui']
    if unwind is not None:
        cmd += ['--unwind', str(unwind)]
    if unwindset:
        cmd += ['--unwindset', ','.join(unwindset)]
    if backend == 'cadical':
        cmd += ['--sat-solver', 'cadical']
    elif backend == 'kissat':
        cmd += ['--external-sat-solver', 'kissat']
    elif backend == 'cvc5':
        cmd += ['--cvc5', '--slice-formula']
    elif backend == 'z3':
        cmd += ['--z3']
    if trace:
        cmd += ['--trace', '--stop-on-fail']
    if prop:
        cmd += ['--property', prop]
    cmd += list(extra)
    env = dict(os.environ)
    if backend == 'cvc5':
        env['PATH'] = os.path.join(LIFT, 'shim') + ':' + env['PATH']
    rc, o, e, s, rss = sh(cmd, timeout=timeout, mem_kb=mem_kb or MEM_KB, env=env)
    r = QResult()
    r.seconds = s; r.rss_kb = rss; r.backend = backend or 'minisat'; r.cmd = ' '.join(cmd)
    if rc == 'timeout':
        r.status = 'inconclusive'; r.reason = 'timeout after %ds' % timeout
        return r
    data = parse_cbmc_json(o)
    if data is None:
        r.status = 'inconclusive'; r.reason = 'unparsable cbmc output rc=%s: %s %s' % (rc, o[-500:], e[-500:])
        return r
    res = None; verdict = None; msgs = []
    for item in data:
        if isinstance(item, dict):
            if 'result' in item: res = item['result']
            if 'trace' in item and 'property' in item and 'status' in item:
                res = (res or []) + [item]     # --stop-on-fail format
            if 'cProverStatus' in item: verdict = item['cProverStatus']
            if item.get('messageType') == 'ERROR': msgs.append(item.get('messageText', ''))
    if res is None or verdict is None:
        r.status = 'inconclusive'; r.reason = 'cbmc gave no verdict rc=%s: %s' % (rc, ' | '.join(msgs)[-1500:] or e[-800:])
        return r
    r.nprops = len(res)
    for p in res:
        if p.get('status') in ('FAILURE', 'failed'):
            sl = p.get('sourceLocation', {})
            r.failed.append((p.get('property'), p.get('description'), '%s:%s' % (sl.get('function'), sl.get('line'))))
            if 'trace' in p and r.trace_inputs is None:
                r.trace_inputs = extract_inputs(p['trace'])
                r.trace_prop = p.get('property')
    if verdict not in ('success', 'failure'):
        r.status = 'inconclusive'; r.reason = 'cbmc status %s: %s' % (verdict, ' | '.join(msgs)[-600:])
        return r
    r.status = 'pass' if verdict == 'success' else 'fail'
    if verdict == 'failure' and not r.failed and not trace:
        r.status = 'inconclusive'; r.reason = 'failure without failed property'
    return r


def extract_inputs(trace):
    """last assignment to each variable of the harness' main() (IN/IN_ARR macros)."""
    vals = {}
    for st in trace:
        if st.get('stepType') != 'assignment':
            continue
        sl = st.get('sourceLocation', {})
        if sl.get('function') != 'main':
            continue
        lhs = st.get('lhs', '')
        v = st.get('value', {})
        m = re.fullmatch(r'(\w+)(?:\[(\d+)l?\])?', lhs)
        if not m:
            continue
        if 'binary' in v and v.get('name') in ('integer', 'float', 'pointer', None) or 'binary' in v:
            b = v.get('binary')
            if b is None or not re.fullmatch(r'[01]+', b):
                continue
            kind = 'i'
            if v.get('name') == 'float':
                kind = 'f4' if len(b) == 32 else 'f8'
            idx = int(m.group(2)) if m.group(2) is not None else -1
            vals[(m.group(1), idx)] = (kind, '%x' % int(b, 2), v.get('data'))
    return vals


def write_values(path, vals):
    with open(path, 'w') as f:
        for (n, i), (kind, hx, _) in sorted(vals.items()):
            f.write('%s %d %s %s\n' % (n, i, kind, hx))


# ---------------------------------------------------------------- native builds (replay / self-test)

def native_build(ctx, L, harness, defines=(), sanitize=True, tag='n'):
    """g++ build of the real functions (wrapper TU) + the harness compiled as C."""
    key = tag + hashlib.md5((harness + ' '.join(defines)).encode()).hexdigest()[:8]
    exe = os.path.join(L.dir, 'native_' + key)
    if os.path.exists(exe):
        return exe
    san = ['-fsanitize=address,undefined', '-fno-sanitize-recover=undefined', '-fno-sanitize=vptr'] if sanitize else []
    wobj = os.path.join(L.dir, 'wrap_%s.o' % ('san' if sanitize else 'plain'))
    if not os.path.exists(wobj):
        cmd = ['g++', '-std=c++17', '-O1', '-g', '-ffunction-sections', '-fdata-sections', '-D_GLIBCXX_ASSERTIONS', '-w'] + san + include_flags(ctx, L.sharable) \
            + ['-D' + d for d in L.defines] + (['-include', os.path.join(LIFT, 'prelude.hpp')] if L.prelude else []) \
            + ['-c', L.cpp, '-o', wobj]
        rc, o, e, s, _ = sh(cmd, timeout=900)
        if rc != 0:
            raise Inconclusive('native g++ build failed: ' + e[-2000:])
    hobj = os.path.join(L.dir, 'h_%s.o' % key)
    cmd = ['gcc', '-std=gnu11', '-O0', '-g', '-w', '-DVNATIVE', '-I' + LIFT, '-I' + L.dir] + ['-D' + d for d in defines] + san + ['-c', harness, '-o', hobj]
    rc, o, e, s, _ = sh(cmd, timeout=300)
    if rc != 0:
        raise Inconclusive('native harness build failed: ' + e[-2000:])
    nobj = os.path.join(L.dir, 'vnative_%s.o' % ('san' if sanitize else 'plain'))
    if not os.path.exists(nobj):
        rc, o, e, s, _ = sh(['gcc', '-O0', '-g', '-w'] + san + ['-c', os.path.join(LIFT, 'vnative.c'), '-o', nobj], timeout=300)
        if rc != 0:
            raise Inconclusive('vnative build failed: ' + e[-2000:])
    if getattr(L, 'libocca', False):
        # functions of other occa units the wrapper TU references are taken from the real library built from the same tree
        from . import okl
        okl.occa_bin(ctx)
        link = ['-L' + ctx._occa_lib, '-locca', '-Wl,-rpath,' + ctx._occa_lib]
    else:
        link = ['-Wl,--unresolved-symbols=ignore-all']
    rc, o, e, s, _ = sh(['g++'] + san + [hobj, wobj, nobj, '-o', exe, '-Wl,--gc-sections'] + link + ['-lpthread', '-ldl'], timeout=300)
    if rc != 0:
        raise Inconclusive('native link failed: ' + e[-2000:])
    return exe


def native_build_c(ctx, q, outdir=None):
    """E2: the harness (reference + emitted code, plain C) compiled by the host compiler with sanitizers."""
    outdir = outdir or os.path.dirname(q.cfiles[0])
    exe = os.path.join(outdir, 'native_' + hashlib.md5((q.cfiles[0] + ' '.join(q.defines)).encode()).hexdigest()[:10])
    san = ['-fsanitize=address'] if getattr(q, 'no_ub_checks', False) else ['-fsanitize=address,undefined', '-fno-sanitize-recover=undefined']
    cmd = ['gcc', '-std=gnu11', '-O0', '-g', '-w', '-DVNATIVE', '-I' + LIFT] + san \
        + ['-D' + d for d in q.defines] + list(q.cfiles) + [os.path.join(LIFT, 'vnative.c'), '-o', exe, '-lm']
    rc, o, e, s, _ = sh(cmd, timeout=300)
    if rc != 0:
        raise Inconclusive('native build of E2 harness failed: ' + e[-2000:])
    return exe


def gen_build(ctx, L, harness, defines=(), tag='g'):
    """gcc build of the *lifted C* + harness (translator validation)."""
    key = tag + hashlib.md5((harness + ' '.join(defines)).encode()).hexdigest()[:8]
    exe = os.path.join(L.dir, 'gen_' + key)
    if os.path.exists(exe):
        return exe
    cmd = ['gcc', '-std=gnu11', '-O0', '-w', '-fwrapv', '-fno-strict-aliasing', '-fno-builtin', '-DVNATIVE', '-I' + LIFT, '-I' + L.dir] + ['-D' + d for d in defines] \
        + ['-include', os.path.join(LIFT, 'cprover_native.h'), harness, L.c] + L.models + [os.path.join(LIFT, 'vnative.c'), '-o', exe, '-lm', '-no-pie', '-Wl,--unresolved-symbols=ignore-all']
    rc, o, e, s, _ = sh(cmd, timeout=600)
    if rc != 0:
        raise Inconclusive('gcc build of lifted C failed: ' + e[-3000:])
    return exe


def run_native(exe, values_path=None, timeout=60):
    env = dict(os.environ)
    if values_path:
        env['VREPLAY'] = values_path
    env['ASAN_OPTIONS'] = 'detect_leaks=0:abort_on_error=0:exitcode=77'
    env['UBSAN_OPTIONS'] = 'print_stacktrace=0:halt_on_error=1:exitcode=78'
    rc, o, e, s, _ = sh([exe], timeout=timeout, env=env)
    return rc, o, e


# ---------------------------------------------------------------- query orchestration

class Query:
    """one solver query = harness + defines + bounds."""
    def __init__(self, name, L, harness, defines=(), unwind=8, unwindset=(), timeout=120, expect='pass', backend=None,
                 desc='', known=None, extra=(), backends=None, classify=None):
        self.name = name; self.L = L; self.harness = harness; self.defines = list(defines)
        self.unwind = unwind; self.unwindset = list(unwindset); self.timeout = timeout
        self.expect = expect      # 'pass': property must hold; 'fail': known finding must still reproduce
        self.backend = backend; self.desc = desc; self.known = known; self.extra = list(extra)
        self.backends = backends  # optional list to race
        self.classify = classify
        self.cfiles = None        # E2: plain C files (L is None)
        self.meta = {}            # E2: what is needed to regenerate the harness for a replay
        self.tr_unwind_is_failure = False


def files_for(q):
    if q.L is None:
        return list(q.cfiles)
    return [q.harness, q.L.c] + q.L.models


def incs_for(q):
    return [q.L.dir] if q.L is not None else []


def run_query(ctx, q, witness=True):
    """returns dict record; performs witness twin, trace + native replay on failure."""
    rec = {'query': q.name, 'desc': q.desc, 'unwind': q.unwind, 'defines': q.defines, 'expect': q.expect}
    r = cbmc_run(ctx, files_for(q), q.defines, q.unwind, q.unwindset, q.timeout, q.backend, extra=q.extra, incs=incs_for(q), no_ub=getattr(q, 'no_ub_checks', False), no_ptr_overflow=getattr(q, 'no_ptr_overflow', False))
    rec.update(status=r.status, seconds=round(r.seconds, 2), rss_mb=r.rss_kb // 1024, backend=r.backend, properties=r.nprops)
    if r.status == 'inconclusive':
        rec['reason'] = r.reason
        return rec
    if r.status == 'fail':
        rec['failed'] = [list(x) for x in r.failed[:8]]
        unw = [x for x in r.failed if 'unwinding assertion' in (x[1] or '')]
        if unw and len(unw) == len(r.failed) and not (q.tr_unwind_is_failure and all(re.match(r'(tr_|_occa_|LAUNCH_)', x[0] or '') for x in unw)):
            rec['status'] = 'inconclusive'; rec['reason'] = 'unwinding bound too small: %s' % unw[0][0]
            return rec
    if r.status == 'pass' and witness and q.L is None and getattr(q, 'witness_vectors', None):
        # vacuity guard, cheap form: a concrete input that satisfies every assumption and reaches the end of the
        # harness when the same file is compiled natively (a failed assumption exits 3 before REACHED-END)
        try:
            exe = native_build_c(ctx, q)
            for i, vec in enumerate(q.witness_vectors):
                vp = exe + '.w%d' % i
                with open(vp, 'w') as f:
                    for k, v in vec.items():
                        f.write('%s -1 i %x\n' % (k, v & 0xffffffffffffffff))
                rc, o, e = run_native(exe, vp, timeout=20)
                if rc == 0 and 'REACHED-END' in o:
                    rec['witness'] = 'reached'; rec['witness_kind'] = 'native run on %s' % vec
                    return rec
        except Inconclusive as ex_:
            rec['witness_note'] = str(ex_)[:300]
    if r.status == 'pass' and witness and q.L is not None and getattr(q, 'witness_vectors', None):
        # E1 cheap vacuity guard: the natively built harness (real functions) reaches its end on a concrete vector with every
        # assumption satisfied
        try:
            exe = native_build(ctx, q.L, q.harness, q.defines, sanitize=False, tag='w')
            for i, vec in enumerate(q.witness_vectors):
                vp = exe + '.w%d' % i
                with open(vp, 'w') as f:
                    for k, v in vec.items():
                        if isinstance(v, (list, tuple)):
                            for j, x in enumerate(v): f.write('%s %d i %x\n' % (k, j, x & 0xffffffffffffffff))
                        else:
                            f.write('%s -1 i %x\n' % (k, v & 0xffffffffffffffff))
                rc, o, e = run_native(exe, vp, timeout=30)
                if rc == 0 and 'REACHED-END' in o:
                    rec['witness'] = 'reached'; rec['witness_kind'] = 'native run on %s' % vec
                    return rec
        except Inconclusive as ex_:
            rec['witness_note'] = str(ex_)[:300]
    if r.status == 'pass' and witness:
        # vacuity guard: the twin's final assert(0) must FAIL
        w = cbmc_run(ctx, files_for(q), q.defines + ['WITNESS'], q.unwind, q.unwindset, q.timeout, q.backend, extra=q.extra, incs=incs_for(q), no_ub=getattr(q, 'no_ub_checks', False), no_ptr_overflow=getattr(q, 'no_ptr_overflow', False))
        rec['witness_seconds'] = round(w.seconds, 2)
        ok = w.status == 'fail' and any('WITNESS' in (x[1] or '') for x in w.failed)
        rec['witness'] = 'reached' if ok else 'NOT-REACHED(%s %s)' % (w.status, w.reason)
        if not ok and q.L is None and w.status == 'pass':
            # every input of this program may lie inside a listed finding's excluded class: then the end must be reachable
            # once the exclusions are lifted, and the program is covered by that finding (reported as such, not as held)
            w2 = cbmc_run(ctx, files_for(q), q.defines + ['WITNESS', 'WITNESS_NOEXCL'], q.unwind, q.unwindset, q.timeout, q.backend, extra=q.extra, incs=incs_for(q), no_ub=getattr(q, 'no_ub_checks', False), no_ptr_overflow=getattr(q, 'no_ptr_overflow', False))
            if w2.status == 'fail' and any('WITNESS' in (x[1] or '') for x in w2.failed):
                rec['witness'] = 'reached only without the known-finding exclusions'
                rec['note'] = 'all inputs of this program fall into a listed finding class; nothing else to decide for it'
                ctx.notes.append('%s: every input lies in a listed finding class (excluded); no further obligation' % q.name)
                return rec
        if not ok:
            rec['status'] = 'inconclusive'; rec['reason'] = 'vacuous: witness twin did not fail (%s %s)' % (w.status, w.reason)
    return rec


def replay_failure(ctx, q, rec, slot):
    """re-run with --trace, extract inputs, run natively against the g++ build of the real code."""
    r = cbmc_run(ctx, files_for(q), q.defines, q.unwind, q.unwindset, max(q.timeout, 300), q.backend, trace=True, extra=q.extra, incs=incs_for(q), no_ub=getattr(q, 'no_ub_checks', False), no_ptr_overflow=getattr(q, 'no_ptr_overflow', False))
    if r.trace_inputs is None:
        rec['replay'] = 'no trace (%s %s)' % (r.status, r.reason)
        return None, False
    d = os.path.join(REPLAY_DIR, '%s_%s' % (ctx.pid, slot))
    os.makedirs(d, exist_ok=True)
    vp = os.path.join(d, 'values.txt')
    write_values(vp, r.trace_inputs)
    rec['counterexample'] = {('%s[%d]' % k if k[1] >= 0 else k[0]): v[2] for k, v in sorted(r.trace_inputs.items())}
    rec['trace_property'] = [getattr(r, 'trace_prop', None)]
    if q.L is None:
        exe = native_build_c(ctx, q)
        rc, o, e = run_native(exe, vp, timeout=20)
        reproduced = rc not in (0, 3)
        rec['replay_rc'] = rc
        rec['replay_output'] = (o + e)[-1200:]
        for cf in q.cfiles[:1]:
            shutil.copy(cf, os.path.join(d, 'harness_at_detection.c'))
        with open(os.path.join(d, 'README.txt'), 'w') as f:
            f.write('property %s query %s\n%s\nfailed: %s\n' % (ctx.pid, q.name, q.desc, rec.get('failed')))
            f.write('inputs: values.txt (hex).  harness_at_detection.c = reference + code emitted by occa translate at detection time.\n')
            f.write('replay (regenerates the emitted code from the current tree): %s/check %s --replay %s\n' % (VERIF, ctx.pid, d))
            f.write('native outcome rc=%s\n%s\n' % (rc, (o + e)[-3000:]))
        with open(os.path.join(d, 'meta.json'), 'w') as f:
            json.dump(dict(q.meta, kind='e2', property=ctx.pid, query=q.name, defines=q.defines), f, indent=1)
        return d, reproduced
    exe = native_build(ctx, q.L, q.harness, q.defines)
    rc, o, e = run_native(exe, vp)
    reproduced = rc not in (0, 3)
    rec['replay_rc'] = rc
    rec['replay_output'] = (o + e)[-1200:]
    with open(os.path.join(d, 'README.txt'), 'w') as f:
        f.write('property %s query %s\n%s\nfailed: %s\n' % (ctx.pid, q.name, q.desc, rec.get('failed')))
        f.write('inputs (values.txt, hex): see file\nreplay: %s/check %s --replay %s\n' % (VERIF, ctx.pid, d))
        f.write('native outcome rc=%s\n%s\n' % (rc, (o + e)[-3000:]))
    shutil.copy(q.harness, os.path.join(d, 'harness.c'))
    with open(os.path.join(d, 'meta.json'), 'w') as f:
        json.dump({'property': ctx.pid, 'query': q.name, 'harness': os.path.relpath(q.harness, VERIF), 'defines': q.defines,
                   'wrapper': os.path.relpath(q.L.cpp, VERIF), 'wrapper_defines': q.L.defines, 'sharable': q.L.sharable, 'libocca': getattr(q.L, 'libocca', False),
                   'prelude': q.L.prelude}, f, indent=1)
    return d, reproduced


def run_queries(ctx, queries, witness=True, jobs=None):
    jobs = jobs or NCPU
    with ThreadPoolExecutor(max_workers=jobs) as ex:
        recs = list(ex.map(lambda q: run_query(ctx, q, witness), queries))
    slot = 0
    for q, rec in zip(queries, recs):
        ctx.solver_s += rec.get('seconds', 0) + rec.get('witness_seconds', 0)
        if rec['status'] == 'inconclusive':
            ctx.inconclusive.append('%s: %s' % (q.name, rec.get('reason')))
        elif q.expect == 'pass' and rec['status'] == 'fail':
            slot += 1
            try:
                d, rep = replay_failure(ctx, q, rec, slot)
            except Inconclusive as ex_:
                d, rep = None, False
                rec['replay'] = 'replay build failed: %s' % ex_
            fl = rec.get('failed') or [['', '', '']]
            only_ptr = all(('pointer' in (x[1] or '') and 'overflow' in (x[1] or '')) for x in fl)
            if rep:
                ctx.violations.append(('%s: %s' % (q.name, rec.get('failed', [['', '?']])[0][1]), d))
            elif only_ptr:
                rec['triage'] = 'pointer-arithmetic overflow only: not reproducible under sanitizers, reported separately'
                ctx.notes.append('pointer-overflow finding in %s (not a violation): %s' % (q.name, rec.get('failed')))
            else:
                ctx.inconclusive.append('%s: counterexample did not reproduce natively (encoding/stub wrong?) %s' % (q.name, rec.get('failed', [])[:2]))
        elif q.expect == 'fail':
            if rec['status'] == 'fail':
                ctx.known.append(q.known)
            else:
                # a listed finding no longer reproduces: say so (not an alarm; the file is not edited at run time)
                ctx.notes.append('known finding no longer reproduces: %s' % q.known)
        ctx.queries.append(rec)
    return recs


# ---------------------------------------------------------------- translator validation

def selftest(ctx, L, harness, defines, vectors, name):
    """run the same harness on concrete vectors against (A) the g++ build of the real functions and
    (B) a gcc build of the lifted C; outputs (OUT lines, assertion results) must be identical."""
    exeA = native_build(ctx, L, harness, defines, sanitize=False, tag='s')
    exeB = gen_build(ctx, L, harness, defines)
    n = 0
    for i, vec in enumerate(vectors):
        vp = os.path.join(L.dir, 'vec_%s_%d.txt' % (name, i))
        with open(vp, 'w') as f:
            for k, v in vec.items():
                if isinstance(v, (list, tuple, bytes)):
                    for j, x in enumerate(v):
                        f.write('%s %d i %x\n' % (k, j, x & 0xffffffffffffffff))
                elif isinstance(v, float):
                    import struct
                    f.write('%s -1 f8 %x\n' % (k, struct.unpack('<Q', struct.pack('<d', v))[0]))
                else:
                    f.write('%s -1 i %x\n' % (k, v & 0xffffffffffffffff))
        ra, oa, ea = run_native(exeA, vp)
        rb, ob, eb = run_native(exeB, vp)
        if (ra, oa) != (rb, ob):
            raise Inconclusive('translator validation mismatch on %s vector %d: real rc=%s %r / lifted rc=%s %r %s' % (name, i, ra, oa[-400:], rb, ob[-400:], eb[-300:]))
        n += 1
    ctx.selftests += n
    return n


# ---------------------------------------------------------------- known findings

def load_known(pid):
    """lines: 'known: property=<id> key=<key> <text>' or 'fixed: property=<id> <commit> <text>'"""
    out = []
    p = os.path.join(VERIF, 'known_findings.txt')
    if not os.path.exists(p):
        return out
    for ln in open(p):
        ln = ln.strip()
        m = re.match(r'known:\s+property=(\w+)\s+key=(\S+)\s+(.*)', ln)
        if m and m.group(1) == pid:
            out.append((m.group(2), m.group(3)))
    return out


# ---------------------------------------------------------------- evidence + exit

def finish(ctx, bounds=None, rule='', trusted=None, extra=None):
    if len(ctx.queries) > 400:
        # keep the evidence file readable: full records for failures/inconclusive ones, a compact line for the rest
        ctx.queries = [r if r.get('status') != 'pass' else {k: r.get(k) for k in ('query', 'status', 'seconds', 'witness', 'properties')} for r in ctx.queries]
    wall = time.time() - ctx.t0
    nontrivial = sum(1 for r in ctx.queries if r.get('status') in ('pass', 'fail') and (r.get('witness') == 'reached' or r.get('status') == 'fail' or r.get('programs') or ctx.extra.get('count_all_verdicts')))
    fnames = sorted(ctx.functions)
    dem = demangle(fnames) if (fnames and ctx.level != 'translation_validation') else fnames
    cov = {
        'evaluations': len(ctx.queries),
        'distinct_nontrivial': nontrivial,
        'rule': rule or 'one evaluation = one solver query (CBMC SAT/SMT verdict over all values of the symbolic inputs inside the stated bound); non-trivial = the query reached its final assertion (its WITNESS twin, whose last assertion is false, was reported FAILED) or returned a counterexample',
        'samples': ctx.samples[:12] or [{k: r.get(k) for k in ('query', 'desc', 'status', 'seconds', 'backend')} for r in ctx.queries[:6]],
        'queries': ctx.queries,
        'functions_encoded': dem[:400],
        'functions_encoded_count': len(dem),
        'units_verified': sorted(ctx.units),
        'bounds': bounds or ctx.bounds,
        'models_and_stubs': sorted(ctx.models),
        'solver_seconds_total': round(ctx.solver_s, 1),
        'translator_validation_vectors': ctx.selftests,
        'traces_validated_against_impl': ctx.selftests,
        'known_findings_reconfirmed': ctx.known,
        'inconclusive': ctx.inconclusive,
        'notes': ctx.notes,
        'encoding': 'regenerated from %s on this run' % REPO,
    }
    if ctx.level == 'model_checking':
        # measured on this run: 'states' = solver queries that returned a verdict (each one a symbolically described family of
        # pre-states/inputs, see bounds), 'transitions' = proof obligations (assertions incl. memory-safety checks) CBMC
        # discharged in them
        cov['states'] = sum(1 for r in ctx.queries if r.get('status') in ('pass', 'fail'))
        cov['transitions'] = sum(int(r.get('properties') or 0) for r in ctx.queries if r.get('status') in ('pass', 'fail'))
        cov['states_transitions_meaning'] = 'states = solver queries with a verdict (each a symbolic family of states/inputs); transitions = assertions CBMC discharged in them'
    if ctx.level == 'translation_validation':
        cov['programs'] = ctx.extra.get('programs', 0)
        cov['disagreements_checked'] = ctx.extra.get('disagreements_checked', 0)
    cov.update(extra or {})
    cov.update({k: v for k, v in ctx.extra.items() if k not in cov})
    ev = {'property_id': ctx.pid, 'tier': ctx.tier, 'seed': ctx.seed, 'level': ctx.level, 'coverage': cov,
          'assumptions': ctx.assumptions + (trusted or []), 'wall_s': round(wall, 1), 'violations': len(ctx.violations)}
    evd = os.environ.get('VERIF_EVIDENCE_DIR', os.path.join(VERIF, 'evidence'))
    os.makedirs(evd, exist_ok=True)
    with open(os.path.join(evd, ctx.pid + '.json'), 'w') as f:
        json.dump(ev, f, indent=1, default=str)
    for k in ctx.known:
        print('KNOWN-FINDING: property=%s %s' % (ctx.pid, k))
    for n in ctx.notes:
        print('note: ' + n)
    print('%s tier=%s queries=%d nontrivial=%d solver=%.1fs wall=%.1fs' % (ctx.pid, ctx.tier, len(ctx.queries), nontrivial, ctx.solver_s, wall))
    code = 0
    if ctx.violations:
        for desc, d in ctx.violations:
            print('VIOLATION property=%s replay=%s   (%s)' % (ctx.pid, d, desc))
        code = 1
    elif ctx.inconclusive:
        for i in ctx.inconclusive:
            print('INCONCLUSIVE %s' % i)
        code = 2
    else:
        print('OK property=%s held on everything explored' % ctx.pid)
    return code


def do_replay(ctx, d):
    """re-run a stored counterexample against the g++ build of the real code in /repo's current tree"""
    meta = json.load(open(os.path.join(d, 'meta.json')))
    if meta.get('kind') == 'e2':
        import importlib
        mod = importlib.import_module('props.' + ctx.pid)
        q = mod.replay_query(ctx, meta)
        if getattr(q, 'force_fail', False):
            print('replay rc=1 (reproduced)')
            return 1
        try:
            exe = native_build_c(ctx, q)
        except Inconclusive as ex_:
            if meta.get('compile_check'):
                print(str(ex_)[-2000:])
                print('replay rc=1 (reproduced: the text printed by occa does not compile)')
                return 1
            raise
        rc, o, e = run_native(exe, os.path.join(d, 'values.txt'), timeout=20)
        print(o[-3000:] + e[-3000:])
        print('replay rc=%s (%s)' % (rc, 'reproduced' if rc not in (0, 3) else 'not reproduced'))
        return 1 if rc not in (0, 3) else 0
    if meta.get('kind') == 'mod':
        import importlib
        return importlib.import_module('props.' + ctx.pid).replay_dir(ctx, d)
    if meta.get('kind') == 'cmd':
        rc, o, e, s, _ = sh(['sh', '-c', meta['cmd']], timeout=900, cwd=d)
        print(o[-3000:] + e[-2000:])
        print('replay rc=%s' % rc)
        return 1 if rc != 0 else 0
    # E1: lift again from the current tree (regenerates the roots header the harness includes), then run the stored
    # harness natively against the g++ build of the real functions
    import importlib
    mod = importlib.import_module('props.' + ctx.pid)
    L = mod.relift(ctx)
    hc = os.path.join(d, 'harness.c')
    harness = hc if os.path.exists(hc) else os.path.join(VERIF, meta['harness'])
    exe = native_build(ctx, L, harness, meta.get('defines', []))
    rc, o, e = run_native(exe, os.path.join(d, 'values.txt'))
    print(o[-3000:] + e[-3000:])
    print('replay rc=%s (%s)' % (rc, 'reproduced' if rc not in (0, 3) else 'not reproduced'))
    return 1 if rc not in (0, 3) else 0
