/* getString(h) == first 16 characters of getFullString(h), for every h, after copy / assign /
 * repeated call / XOR (MODE selects the history of the object) */
#include "vharness.h"
#include "C27_roots.h"
#ifndef MODE
#define MODE 0
#endif
int main(void) {
  IN_ARR(int, h, 8);
  IN_ARR(int, g, 8);
#ifdef EXCLUDE_ZERO_CACHE
  /* known finding C27-zero-short: value whose words are all zero on an object whose short-string
     cache is still in its initial (all-zero) state */
  {
    int allz = 1;
    for (int i = 0; i < 8; i++) { int w = (MODE == 4 || MODE >= 6) ? (h[i] ^ g[i]) : h[i]; if (w != 0) allz = 0; }
    VASSUME(!allz);
  }
#endif
  char full[80] = {0}, sh[80] = {0};
  int r = v_short((char*) h, (char*) g, MODE, full, sh);
  OUT(r, r);
  VASSERT(r != -1, "no exception");
  VASSERT(r == 6416, "full string 64 chars, short string 16 chars");
  for (int i = 0; i < 16; i++) { OUTI(sh, i, sh[i]); VASSERT(sh[i] == full[i], "short string is the 16-char prefix of the full string"); }
  VREACH();
  return 0;
}
