"""C23 functional ranges: length and element formula match the sequential loop (E1, narrow: see bounds/outside)."""
import os, re
from vlib import common as C
from vlib.common import Query
H = os.path.join(C.VERIF, 'harness', 'C23')
ROOTS = ['v_length']


def relift(ctx):
    return C.lift(ctx, 'C23', os.path.join(H, 'wrap.cpp'), ROOTS, ub=True, libocca=True)


def run(ctx):
    thorough = ctx.tier == 'thorough'
    L = relift(ctx)
    hs = os.path.join(H, 'h_length.c')
    U = 6
    RB = 14 if thorough else 12
    qs = []
    for nm, sg in (('length-positive-step', 1), ('length-negative-step', -1)):
        qs.append(Query(nm, L, hs, ['U=%d' % U, 'RB=%d' % RB, 'STEPSIGN=%d' % sg], unwind=U + 2, timeout=3000 if thorough else 1500, backend='cadical',
                        desc='range::length() vs the sequential loop, all start/end in [-2^%d,2^%d], step %s 0, trip count <= %d' % (RB, RB, '>' if sg > 0 else '<', U)))
    C.selftest(ctx, L, hs, ['U=%d' % U], [dict(start=0, end=5, step=1), dict(start=5, end=0, step=-2), dict(start=3, end=3, step=1), dict(start=0, end=7, step=3), dict(start=2, end=-5, step=4)], 'len')
    C.run_queries(ctx, qs)
    ctx.bounds = {'values': 'start, end, step: all values in [-2^%d, 2^%d]' % (RB, RB) + ', step != 0 (both signs, empty and wrong-direction ranges included)',
                  'trip count': '<= %d (longer ranges are cut by assumption)' % U,
                  'outside': 'occa::array operations, reductions, tile sizes/iteration counts and occa::forLoop: they build OKL source strings and JIT-compile kernels through occa::json/scope/device objects, which the lifted-IR route cannot execute (heap-allocating json containers, file system, child compiler); the range constructors themselves (they need a device)'}
    ctx.assumptions += ['signed overflow inside length() is checked (lifted with --ub)', 'the range object is raw storage with start/end/step set directly']
    return C.finish(ctx)
