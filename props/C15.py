"""C15 printing a parsed program preserves its meaning and re-parses identically (E2).
Original text (read as C) and the text printed by the real occa printer are two C functions over the same symbolic
values; CBMC decides they leave equal results.  Side check (concrete): printing the printed text again is a fixpoint."""
import os, re, itertools, hashlib
from vlib import common as C, okl as O

BIN = ['*', '/', '%', '+', '-', '<<', '>>', '<', '<=', '>', '>=', '==', '!=', '&', '^', '|', '&&', '||']
NOUT = 26


SIZEOF_TYPE = re.compile(r'sizeof\s*\(\s*(int|long|char|short|unsigned|float|double)')


def exprs_pure(tier, seed):
    """side-effect-free int expressions over a,b,c,d (1..12), u (1..40), p[0..3]"""
    E = []
    for o1, o2 in itertools.product(BIN, BIN):
        E.append(('pair', 'a %s b %s c' % (o1, o2)))
    for o1, o2 in itertools.product(BIN, BIN):
        if o2 in ('/', '%'):
            E.append(('paren', '(a %s b) %s c' % (o1, o2)))
        elif o1 in ('/', '%'):
            E.append(('paren', '(a %s b) %s c' % (o1, o2)))
        else:
            E.append(('paren', '(a %s b) %s c' % (o1, o2))); E.append(('paren', 'a %s (b %s c)' % (o1, o2)))
    una = ['-a', '+a', '!a', '~a', '- -a', '-(-a)', '!!a', '~-a', '-~a', '- - -a', '+ +a', '+ -a', '- +a', '-a * b', '-(a * b)', '(-a) * b', '!a == b', '!(a == b)', '~a & b', '~(a & b)',
           '-a - -b', 'a - -b', 'a + +b', 'a - (-b)', 'a - - -b', 'a + -b * c', '-a << 1', '-(a << 1)', '!a + !b', '!(a + !b)', 'a * -b', 'a / -b', 'a % -b', 'a & -b', 'a | ~b', 'a ^ !b', 'a && !b', '!a || b',
           '- (a - b)', '-(a - b) - c', 'a - (b - c)', 'a - (b + c)', 'a / (b * c)', 'a / (b / c | 1)', 'a % (b % c | 1)', 'a * (b / c)', '(a * b) / c', 'a - (b - (c - d))', '((a - b) - c) - d', 'a << (b >> 1)', '(a << b) >> 1',
           'a < b < c', 'a < (b < c)', 'a == b == c', 'a == (b == c)', 'a != b < c', '(a != b) < c', 'a & b == c', '(a & b) == c', 'a | b && c', 'a | (b && c)', 'a ^ b & c | d', 'a ^ (b & c | d)', '(a ^ b) & (c | d)',
           'a && b || c && d', 'a && (b || c) && d', 'a || b && c || d', '(a || b) && (c || d)', 'p[0] + p[1] * p[2]', 'p[a & 3]', 'p[(a + b) & 3] - p[c & 3]', '-p[1]', '!p[2]', 'p[p[0] & 3]', 'p[1] ? p[2] : p[3]',
           '*p', '*p * 2', '2 * *p', 'a * *p', 'a + *p', 'a - *p', '*(p + 1)', '*(p + (a & 3))', '*p + 1', '(*p) + 1', '*(&a)', '*&a + 1', 'a - -*p', '-*p']
    E += [('unary', e) for e in una]
    tern = ['a ? b : c', 'a < b ? c : d', 'a ? b : c ? d : a', '(a ? b : c) ? d : a', 'a ? b ? c : d : a', 'a ? (b ? c : d) : a', 'a ? b : c + d', '(a ? b : c) + d', 'a + b ? c : d', 'a + (b ? c : d)',
            'a < b ? a : b', '(a < b ? a : b) * 2', 'a < b ? a : b * 2', 'a ? b : c ? d : a ? b : c', 'a - b ? c - d : d - c', '!(a - b) ? c : d', 'a == b ? c : d == a', '(a == b ? c : d) == a', 'a & 1 ? b : c', 'a & (1 ? b : c)',
            'a || b ? c : d', 'a || (b ? c : d)', 'a ? b : c, d', '(a ? b : c, d)', 'a ? (b, c) : d', '(a, b)', '(a, b) + c', '(a, b, c)']
    E += [('ternary', e) for e in tern]
    cast = ['(long) a * b', '(long) (a * b)', '(char) a + b', '(char) (a + 300)', '(unsigned int) a / 2u', '(int) u - 50', '-(int) u', '(unsigned char) (a + 250)', '(short) (a << 12)', '(int) (char) (a + 120)',
            '(int) -a', '-(int) a', '(long) a << 3', '(long) (a << 3)', '(int) a + (int) b', '(unsigned int) (a - b) > 5', '(unsigned int) a - b > 5', '(int) (u - 50) < 0', '(int) u - 50 < 0', 'u - 50 < a', 'a + u', 'a / u', 'u >> 1', '-u > 5',
            'u * a', 'u - a * 2', '(u - a) * 2', 'u % 7 + a', 'u & a', '~u > 5', '(long) u - 50', '(long) (u - 50)', '(float) a / 2', '(int) ((float) a / 2)', '(int) (2.5 * a)', '(int) (a * 0.5 + 0.25)', '(int) (1.5f * a)', '(double) a / b > 1.25']
    E += [('cast', e) for e in cast]
    lit = ['0x10 + a', '010 + a', '10u - a', '1L << 3', "'a' + a", "'\\n'", "'\\''", "'\\\\'", "'\\0'", "'\"'", "'\\t' + 1", '"ab\\"c"[2]', '"\\"x"[0]', '"\\"x"[1]', '"\\\\"[0]', '"a\\\\\\"b"[2]', '"a\\\\\\"b"[3]', '"x"[0]', '"x\\ny"[1]',
           '"\\"\\""[1]', '"a\'b"[1]', "'\\x41'", '"\\x41\\x42"[1]', 'sizeof(int)', '1 + sizeof(int)', 'sizeof(int) + 1', 'sizeof(a)', 'sizeof(int) * a', 'a * sizeof(long)', 'sizeof(p[0]) + a', '(int) sizeof(int) - a', '0xFFFFFFFF > a', '2147483648 > a', '0x7fffffff - a',
           '1000000 * 3 / 3', '100 / 7 % 3', '-1 < 0u', '1 - 2 > 0u', '1e2 > a', '(int) 1e2 + a', '0.5 < a', '1 / 2 * a', '1.0 / 2 * a > 1', '07 + 0x7 + 7', '0b101 + a', '1u << 31 > 0', "(char) 'a' == 97", '1 ? a : b', '0 ? a : b', '(a ? 1 : 0) + (b ? 0 : 1)']
    E += [('literal', e) for e in lit]
    if tier != 'thorough':
        # quick: all operator pairs (unparenthesised) + every other parenthesised form + the hand-written lists
        E = [e for i, e in enumerate(E) if e[0] != 'paren' or (i + seed) % 2 == 0]
    return E


SIDE = [  # statements with side effects; each group is one kernel, final state of a,b,c,d,p is compared
    ['a += b * c;', 'b -= a - c;', 'c *= a + 1;', 'd /= b | 1;', 'a %= c | 1;', 'a <<= 2;', 'b >>= 1;', 'c &= a | 3;', 'd |= b & 5;', 'a ^= d;'],
    ['a = b = c;', 'd = (a = b + 1) + c;', 'a = b ? c : d;', 'a = (b, c);', 'a = b, c = d;', 'b = a += 2;', 'c = d -= a;', 'a = -(b = -c);'],
    ['out[20] = a++ + b;', 'out[21] = ++a + b;', 'out[22] = a++ + ++b;', 'out[23] = a-- - --b;', 'out[24] = a++ * 2;', 'out[25] = -a--;', 'out[19] = - --a;', 'out[18] = a - --b;', 'out[17] = a - -(--b);', 'out[16] = a+++b;', 'out[15] = (a++) + b;'],
    ['p[c & 3] = a;', 'p[a & 3] += b;', 'p[0]++;', '--p[1];', 'p[2] = p[0] + p[1]++;', '*p = 5;', '*(p + 1) = *p + 1;', 'p[(a + 1) & 3] = p[a & 3] = d;'],
    ['int e = a * (b + c), f = e >> 1;', 'const int g = -a;', 'int arr[3] = {a, b + 1, c * 2};', 'out[20] = e + f + g + arr[1] * arr[2];', 'unsigned int w = u - 50; out[22] = w > 100;', 'char ch = (char) (a + 250); out[23] = ch;', 'long h = (long) a << 20; out[21] = (int) h;', 'long h2 = (long) a << 20; out[24] = (int) (h2 >> 18);'],
    ['if (a > b) a = 1; else a = 2;', 'if (b) if (c > d) b = 1; else b = 2;', 'if (c) { if (d > a) c = 1; } else c = 2;', 'if (a) if (b > 1) d = 10; else d = 20; else d = 30;', 'if (a - 1) p[0] = 1; else if (b - 1) p[0] = 2; else if (c) p[0] = 3; else p[0] = 4;',
     'if (a == 1) p[1] = 10; else if (b == 2) if (c == 3) p[1] = 20; else p[1] = 30; else p[1] = 40;'],
    ['int e = a + 6; while (e > 0) { e -= 3; b++; }', 'int f = 0; do { f += 2; c--; } while (f < a);', 'for (int k = 0; k < 3; ++k) { if (k == 1) continue; d += k * a; }', 'for (int k = 5; k > 0; k -= 2) { if (k < 2) break; p[k & 3] += k; }',
     '{ int a = 99; { int b = a + 1; out[20] = b; } out[21] = a; }', 'out[22] = a;', 'switch (a & 3) { case 0: p[0] = 7; break; case 1: p[0] = 8; break; case 2: p[0] += 1; break; default: p[0] = -1; }', 'switch (b & 3) { case 0: p[1] = 7; break; case 1: p[1] = 8; case 2: p[1] += 1; break; default: p[1] = -1; }'],
    ['for (int k = 0, m = 3; k < m; ++k, --m) d += k - m;', 'int e = 2; while (e--) a += e;', 'int f = 3; while (--f) b += f;', 'for (;;) { c++; if (c > 14) break; }', 'int g = a > b ? a : b; out[20] = g;', 'if (!(a & 1) && b | 1) out[21] = 1; else out[21] = 2;',
     'out[22] = a > 3 && b < 10 || c == d;', 'goto_skip: out[23] = 1;'],
]


KTXT = ('@kernel void %s(const int A, const int B, const int C_, const int D, const unsigned int U, const int *P, int *out) {\n'
        '  for (int o = 0; o < 1; ++o; @outer) {\n    for (int n = 0; n < 1; ++n; @inner) {\n'
        '      int p[4];\n      p[0] = P[0]; p[1] = P[1]; p[2] = P[2]; p[3] = P[3];\n      %s_f(A, B, C_, D, U, p, out);\n'
        '    }\n  }\n}\n')


def kernel(name, stmts):
    body = ''.join('  %s\n' % s for s in stmts)
    f = ('void %s_f(int a, int b, int c, int d, unsigned int u, int *p, int *out) {\n%s'
         '  out[%d] = a; out[%d] = b; out[%d] = c; out[%d] = d; out[%d] = p[0]; out[%d] = p[1]; out[%d] = p[2]; out[%d] = p[3];\n}\n') % ((name, body) + tuple(range(NOUT, NOUT + 8)))
    return f + KTXT % (name, name)


def helper_text(txt, name):
    """the printed text of the helper function <name>_f"""
    for (hs, lp, rp, bs, be) in O._top_level_functions(txt):
        if re.search(r'\b%s_f\s*$' % re.escape(name), txt[hs:lp]) and bs is not None:
            return txt[hs:be]
    return None


ARGS = [('int', 'A', 1, 12), ('int', 'B', 1, 12), ('int', 'C_', 1, 12), ('int', 'D', 1, 12), ('unsigned int', 'U', 1, 40), ('const int *', 'P', None, None), ('int *', 'out', None, None)]


def programs(tier, seed, known=()):
    progs = []
    E = exprs_pure(tier, seed)
    if 'sizeof-type' in known:
        E = [e for e in E if not SIZEOF_TYPE.search(e[1])]
    nb = 0
    for i in range(0, len(E), NOUT):
        chunk = E[i:i + NOUT]
        name = 'e%03d' % nb; nb += 1
        progs.append(batch(name, [e for _, e in chunk]))
    for gi, grp in enumerate(SIDE):
        for si, st in enumerate(grp):
            name = 's%d_%02d' % (gi, si)
            # groups 4, 6, 7 accumulate (later statements use earlier declarations); the others are one statement per kernel
            stmts = grp[:si + 1] if gi in (4, 6, 7) else [st]
            p = O.Prog(name, kernel(name, stmts), name, ARGS, refcap=1, cap=2, unwind=17, desc='statements ' + ' '.join(stmts))
            p.arrays = [('int', 'P', 4, 'in'), ('int', 'out', NOUT + 8, 'out')]
            p.arr_range = (-12, 12)
            p.exprs = stmts
            progs.append(p)
    return progs


def batch(name, exprs):
    p = O.Prog(name, kernel(name, ['out[%d] = %s;' % (k, e) for k, e in enumerate(exprs)]), name, ARGS, refcap=1, cap=2, unwind=8, desc='expressions ' + ' ;; '.join(exprs))
    p.arrays = [('int', 'P', 4, 'in'), ('int', 'out', NOUT + 8, 'out')]
    p.arr_range = (-12, 12)
    p.exprs = list(exprs)
    p.skip_cmp = {'out': set(range(len(exprs), NOUT))}
    return p


def harness(prog, mode, tr_text, excl=()):
    return O.array_harness(prog, mode, tr_text, excl)


def syntax_ok(ctx, cfile):
    rc, o, e, s, _ = C.sh(['gcc', '-std=gnu11', '-fsyntax-only', '-w', '-DVNATIVE', '-I' + C.LIFT, cfile], timeout=120)
    return rc == 0, e


def run(ctx):
    thorough = ctx.tier == 'thorough'
    ctx.level = 'translation_validation'
    known = dict(C.load_known('C15'))
    progs = programs(ctx.tier, ctx.seed, known)
    if ctx.only:
        progs = [p for p in progs if re.search(ctx.only, p.name)]
    def modes_of(p, cnt=[0]):
        cnt[0] += 1
        if thorough:
            return ['Serial', 'OpenMP', 'CUDA', 'OpenCL']
        return [('Serial', 'OpenMP', 'Serial', 'CUDA')[cnt[0] % 4]]
    wv = [dict(A=1, B=2, C_=3, D=4, U=7), dict(A=3, B=1, C_=2, D=2, U=60), dict(A=12, B=12, C_=1, D=5, U=1)]
    tmo = 1200 if thorough else 600
    qs, rejected = O.make_queries(ctx, progs, O.MODES, harness, known_keys=list(known), timeout=tmo, witness_vectors=wv, modes_of=modes_of)
    # a batch occa rejects is rebuilt from the expressions it accepts one by one (rejected ones are recorded, not violations:
    # the property quantifies over text occa parses)
    rej_names = {r['program'] for r in rejected}
    rebuilt = []; single_rejects = []
    for p in progs:
        if p.name not in rej_names or not p.name.startswith('e'):
            continue
        singles = [(batch('%sx%02d' % (p.name, k), [e]), e) for k, e in enumerate(p.exprs)]
        sq, srej = O.make_queries(ctx, [sp for sp, _ in singles], ['Serial'], harness)
        bad = {r['program'] for r in srej}
        ok = [e for sp, e in singles if sp.name not in bad]
        single_rejects += [e for sp, e in singles if sp.name in bad]
        if ok:
            rebuilt.append(batch(p.name + 'r', ok))
    if rebuilt:
        q2, rej2 = O.make_queries(ctx, rebuilt, O.MODES, harness, known_keys=list(known), timeout=tmo, witness_vectors=wv, modes_of=modes_of)
        qs += q2; progs += rebuilt
        rejected = [r for r in rejected if not r['program'].startswith('e')] + rej2
    ctx.extra['expressions_rejected_by_occa'] = single_rejects
    # listed findings: a dedicated program that must still fail
    if 'sizeof-type' in known and not ctx.only:
        kp = batch('known_sizeof', ['1 + sizeof(int)', 'a * sizeof(long)'])
        kq, _ = O.make_queries(ctx, [kp], ['Serial'], harness, suffix='_known')
        for q in kq:
            q.name += '/known:sizeof-type'; q.expect = 'fail'; q.known = 'key=sizeof-type ' + known['sizeof-type']
        qs += kq
    for q in qs:
        q.no_ub_checks = True
    # (1) the printed text must be valid C wherever the original is; (2) concrete side check: parsing the printed helper function
    # again prints the same text (structurally identical tree)
    fix_bad = []; nfix = 0; runq = []; fixdone = set()
    slot = 1000
    for q in qs:
        okc, err = syntax_ok(ctx, q.cfiles[0])
        if not okc:
            refonly = q.cfiles[0] + '.refonly.c'
            txt = open(q.cfiles[0]).read()
            cut = txt.index('/* ---- translation emitted')
            open(refonly, 'w').write(txt[:cut])
            okr, err_r = syntax_ok(ctx, refonly)
            rec = {'query': q.name, 'desc': q.desc[:300], 'status': 'fail' if okr else 'inconclusive', 'seconds': 0, 'compile_error': err[-600:]}
            if not okr:
                rec['reason'] = 'reference text does not compile (generator bug): ' + err_r[-300:]
                ctx.inconclusive.append('%s: %s' % (q.name, rec['reason']))
            elif q.expect == 'fail':
                ctx.known.append(q.known)
            else:
                slot += 1
                d = os.path.join(C.REPLAY_DIR, 'C15_%d' % slot); os.makedirs(d, exist_ok=True)
                import json, shutil
                shutil.copy(q.cfiles[0], os.path.join(d, 'harness_at_detection.c'))
                open(os.path.join(d, 'values.txt'), 'w').write('')
                open(os.path.join(d, 'README.txt'), 'w').write('the text printed by occa is not valid C although the original is:\n%s\n' % err[-1500:])
                json.dump(dict(q.meta, kind='e2', property='C15', query=q.name, defines=[], compile_check=True), open(os.path.join(d, 'meta.json'), 'w'), indent=1)
                ctx.violations.append(('%s: printed text does not compile: %s' % (q.name, err.strip().split('\n')[0][-160:]), d))
            ctx.queries.append(rec)
            continue
        runq.append(q)
        if q.expect == 'pass' and q.prog.name not in fixdone:
            fixdone.add(q.prog.name)      # once per program, whatever backend its query uses (the side check prints with Serial itself)
            d = os.path.dirname(q.cfiles[0])
            txt, err = O.translate(ctx, os.path.join(d, q.prog.name + '.okl'), 'Serial')
            h1 = helper_text(txt or '', q.prog.name)
            if h1 is None:
                continue
            p2 = os.path.join(d, q.prog.name + '_reparse.okl')
            open(p2, 'w').write(h1.replace('extern "C"', '') + '\n' + KTXT % (q.prog.name, q.prog.name))
            txt2, err2 = O.translate(ctx, p2, 'Serial')
            h2 = helper_text(txt2 or '', q.prog.name)
            nfix += 1
            if h2 is None or re.sub(r'\s+', ' ', h2) != re.sub(r'\s+', ' ', h1):
                fix_bad.append({'program': q.prog.name, 'first': h1[-800:], 'second': (h2 or err2)[-800:]})
    C.run_queries(ctx, runq)
    ctx.extra['programs'] = len(progs)
    ctx.extra['expressions_and_statements'] = sum(len(p.exprs) for p in progs)
    ctx.extra['programs_rejected_by_occa'] = rejected[:40]
    ctx.extra['programs_rejected_count'] = len(rejected)
    ctx.extra['reparse_fixpoint_checked'] = nfix
    ctx.extra['reparse_fixpoint_mismatches'] = fix_bad[:10]
    ctx.extra['disagreements_checked'] = sum(1 for r in ctx.queries if r.get('status') == 'fail')
    ctx.samples = [{'program': p.okl, 'desc': p.desc[:300]} for p in progs[:1] + progs[-2:]]
    ctx.bounds = {'programs': '%d kernels holding %d expressions/statements: every ordered pair of the 18 binary operators without parentheses and with either grouping; unary/deref/subscript, ternary, cast, literal (integer/char/string/float spellings, escapes) lists; assignment/increment side effects; declarations; if/else chains incl. dangling else, loops, switch' % (len(progs), sum(len(p.exprs) for p in progs)),
                  'run-time values': 'a,b,c,d in 1..12, u in 1..40, p[0..3] in -12..12 (all values)',
                  'outside': 'C++-only syntax (new/delete, lambdas, templates), expressions with undefined behaviour in the original, floating-point results beyond the listed casts, text occa does not parse (listed in evidence)'}
    ctx.assumptions += ['the original text is read as C by CBMC (the listed constructs mean the same in C and C++)', 'CBMC UB checks are off for this property: both sides get the same bit-vector semantics, divisors are never zero in the stated ranges',
                        'structural identity of the re-parsed tree is observed as textual identity of its print (concrete side check, not the deciding step)']
    for fb in fix_bad:
        slot += 1
        d = os.path.join(C.REPLAY_DIR, 'C15_%d' % slot); os.makedirs(d, exist_ok=True)
        import json
        open(os.path.join(d, 'README.txt'), 'w').write('printing the printed text again gives different text (the printed program does not re-parse to the same tree)\nfirst print:\n%s\nsecond print:\n%s\n' % (fb['first'], fb['second']))
        pr = [p for p in progs if p.name == fb['program']][0]
        json.dump({'kind': 'e2', 'property': 'C15', 'program': pr.name, 'mode': 'Serial', 'prog': O.prog_to_meta(pr), 'fixpoint_check': True}, open(os.path.join(d, 'meta.json'), 'w'), indent=1)
        open(os.path.join(d, 'values.txt'), 'w').write('')
        ctx.violations.append(('%s: printed text does not re-parse to the same tree' % fb['program'], d))
    if len(rejected) > len(qs):
        ctx.inconclusive.append('occa rejected most generated programs (%d)' % len(rejected))
    return C.finish(ctx)


def replay_query(ctx, meta):
    q = O.replay_query(ctx, dict(meta, harness_fn='array_harness'), 'C15')
    q.no_ub_checks = True
    if meta.get('fixpoint_check'):
        d = os.path.dirname(q.cfiles[0])
        txt, err = O.translate(ctx, os.path.join(d, q.prog.name + '.okl'), 'Serial')
        h1 = helper_text(txt or '', q.prog.name)
        p2 = os.path.join(d, q.prog.name + '_reparse.okl')
        open(p2, 'w').write((h1 or '').replace('extern "C"', '') + '\n' + KTXT % (q.prog.name, q.prog.name))
        txt2, err2 = O.translate(ctx, p2, 'Serial')
        h2 = helper_text(txt2 or '', q.prog.name)
        if h1 is None or h2 is None or re.sub(r'\s+', ' ', h2) != re.sub(r'\s+', ' ', h1):
            print('re-parse of the printed text differs:\n%s\n---\n%s' % (h1, h2 or err2))
            q.cfiles = [q.cfiles[0]]; q.force_fail = True
    return q
