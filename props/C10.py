"""C10 kernel argument validation: the cast-compatibility rule (E1, partial: see outside)."""
import os, re
from vlib import common as C
from vlib.common import Query
H = os.path.join(C.VERIF, 'harness', 'C10')
ROOTS = ['d_cast', 'd_cast_empty', 'd_cyclic']


def relift(ctx):
    return C.lift(ctx, 'C10', os.path.join(H, 'wrap.cpp'), ROOTS, libocca=True)


def run(ctx):
    thorough = ctx.tier == 'thorough'
    L = relift(ctx)
    known = dict(C.load_known('C10'))
    hs = os.path.join(H, 'h_cast.c')
    NM = 5 if thorough else 4
    # loops over the 8 selector slots (harness main, wrapper fill) need 9; the loops of the code under test are bounded by the
    # flattened lengths
    US = ['main.%d:9' % k for k in range(4)] + ['%s.%d:9' % (f, k) for f in ('d_cast', 'd_cast_empty', 'd_cyclic', 'fill', 'zero') for k in range(8)]
    qs = []
    for nf in range(1, NM + 1):
        for nt in range(1, NM + 1):
            qs.append(Query('cast-rule-%dx%d' % (nf, nt), L, hs, ['NMAX=%d' % NM, 'NF=%d' % nf, 'NT=%d' % nt], unwind=NM + 2, unwindset=US, timeout=1800 if thorough else 900, backend='cadical',
                            desc='canBeCastedTo on flattened vectors of lengths %d and %d, every choice of leaf dtypes: reference rule, symmetry, no crash' % (nf, nt)))
    if 'empty-dtype' in known:
        qs.append(Query('empty/known', L, hs, ['NMAX=%d' % NM, 'EMPTY'], unwind=NM + 2, unwindset=US, timeout=400, backend='cadical', expect='fail', known='key=empty-dtype ' + known['empty-dtype'], desc='re-confirm listed finding'))
    else:
        qs.append(Query('empty', L, hs, ['NMAX=%d' % NM, 'EMPTY'], unwind=NM + 2, unwindset=US, timeout=1800 if thorough else 900, backend='cadical',
                        desc='an empty struct dtype against flattened vectors of lengths 1..%d, both directions: not castable, no crash' % NM))
    for q in qs:
        q.no_ptr_overflow = True
    if ctx.only:
        qs = [q for q in qs if re.search(ctx.only, q.name)]
    C.selftest(ctx, L, hs, ['NMAX=%d' % NM], [dict(nf=1, nt=2, f=[0] * 8, t=[0] * 8), dict(nf=2, nt=3, f=[0, 1, 0, 0, 0, 0, 0, 0], t=[0, 1, 0, 2, 0, 0, 0, 0]), dict(nf=3, nt=3, f=[0, 1, 2, 0, 0, 0, 0, 0], t=[0, 1, 2, 0, 0, 0, 0, 0])], 'cast')
    C.run_queries(ctx, qs)
    ctx.bounds = {'flattened dtypes': 'every pair of flattened dtype vectors of lengths 1..%d over three distinct leaf dtypes, and an empty struct dtype against each' % NM,
                  'outside': 'extraction of argument metadata by the parser and the fresh-vs-cached clause (parser + build.json I/O); modeKernel_t::setupRun itself (needs a kernel object with occa::json properties); flattening of struct/tuple/union trees (setFlattenedDtype recursion over heap objects); the byte wildcard (identity of the global occa::dtype::byte)'}
    ctx.assumptions += ['private members of dtype_t are opened in the wrapper TU to set flatDtype directly', 'operator new never fails']
    return C.finish(ctx)
