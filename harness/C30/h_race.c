/* ENABLE_SHARABLE_DEVICE build: two threads each perform ONE handle operation on handles of the same backend object; CBMC
 * explores every interleaving of their shared-memory accesses (sequential consistency).  The object must be destroyed
 * exactly once when both of its last handles are dropped, never touched after destruction (pointer checks), and with a
 * third handle alive it must survive with a consistent ring.
 * SCEN 0: handles h0,h1 -> X.   A: scope exit of h0   B: scope exit of h1            => X destroyed exactly once
 * SCEN 1: handles h0,h1,h2 -> X. A: scope exit of h0   B: scope exit of h1            => X alive, ring == {h2}
 * SCEN 2: handles h0,h1 -> X, h2 empty. A: h2 = h0 (copy)   B: scope exit of h1       => X alive, ring == {h0,h2}            */
#include "vharness.h"
#include "C30_roots.h"
int done_a;
static void thread_a(void) {
#if SCEN == 2
  c_assign(2, 0);
#else
  c_destroy(0);
#endif
  done_a = 1;
}
int main(void) {
  c_setup();
  c_attach(0, 0); c_attach(1, 0);
#if SCEN == 1
  c_attach(2, 0);
#endif
__CPROVER_ASYNC_1: thread_a();
  c_destroy(1);
  __CPROVER_assume(done_a);
#if SCEN == 0
  VASSERT(c_dtor(0) == 1, "the object is destroyed exactly once when its last two handles are dropped concurrently");
#elif SCEN == 1
  VASSERT(c_dtor(0) == 0, "the object survives while a third handle refers to it");
  VASSERT(c_ringlen(0) == 1 && c_inring(0, 2) == 1, "the ring holds exactly the remaining handle");
#else
  VASSERT(c_dtor(0) == 0, "the object survives: h0 and the new copy refer to it");
  VASSERT(c_ringlen(0) == 2 && c_inring(0, 0) == 1 && c_inring(0, 2) == 1, "the ring holds exactly h0 and the copy");
#endif
  VREACH();
  return 0;
}
