/* c ? t : f evaluates the condition once and exactly the selected operand (the other one is not evaluated) */
#include "vharness.h"
#include "C14sc_roots.h"
int main(void) {
  IN(long, c); IN(long, t); IN(long, f);
  int ev[3] = {-1, -1, -1};
  long r = s_ternary(c, t, f, (char *) ev);
  OUT(r, r); OUT(e0, ev[0]); OUT(e1, ev[1]); OUT(e2, ev[2]);
  VASSERT(r == (c ? t : f), "the conditional has the value of the selected operand");
  VASSERT(ev[0] == 1, "the condition is evaluated once");
  VASSERT(ev[1] == (c ? 1 : 0) && ev[2] == (c ? 0 : 1), "exactly the selected operand is evaluated; the operand C++ does not evaluate is not evaluated");
  VREACH();
  return 0;
}
