#!/usr/bin/env python3
"""Prototype LLVM-14 textual IR -> C translator (typed pointers), for CBMC.
All pointers are `char*` in C; loads/stores/GEPs cast to typed struct pointers.
Exceptions are lowered to a pending flag.  Only functions reachable from the
given roots are emitted."""
import re, sys, hashlib

TOK = re.compile(r'''
   (?P<ws>\s+)
 | (?P<cstr>c"(?:[^"\\]|\\[0-9A-Fa-f]{2}|\\\\)*")
 | (?P<str>"(?:[^"\\]|\\.)*")
 | (?P<local>%(?:"[^"]*"|[-a-zA-Z$._0-9]+))
 | (?P<glob>@(?:"[^"]*"|[-a-zA-Z$._0-9]+))
 | (?P<meta>!(?:[-a-zA-Z$._0-9]+|\{[^}]*\}|"[^"]*")?)
 | (?P<attr>\#\d+)
 | (?P<dots>\.\.\.)
 | (?P<num>-?(?:0x[KLMHR]?[0-9A-Fa-f]+|\d+\.\d*(?:[eE][-+]?\d+)?|\d+))
 | (?P<id>[a-zA-Z_][a-zA-Z0-9_.]*)
 | (?P<p>[()\[\]{}<>,=*:|])
''', re.X)

def lex(s):
    out = []; i = 0
    while i < len(s):
        if s[i] == ';': break
        m = TOK.match(s, i)
        if not m: raise SyntaxError("lex: %r at %r" % (s, s[i:i+20]))
        i = m.end()
        k = m.lastgroup
        if k == 'ws': continue
        out.append((k, m.group(k)))
    return out

# ---------------- types
class T:
    pass
class TVoid(T):
    def __repr__(s): return 'void'
class TInt(T):
    def __init__(s, n): s.n = n
    def __repr__(s): return 'i%d' % s.n
class TFP(T):
    def __init__(s, k): s.k = k
    def __repr__(s): return s.k
class TPtr(T):
    def __init__(s, to): s.to = to
    def __repr__(s): return '%r*' % (s.to,)
class TArr(T):
    def __init__(s, n, el): s.n = n; s.el = el
    def __repr__(s): return '[%d x %r]' % (s.n, s.el)
class TVec(T):
    def __init__(s, n, el): s.n = n; s.el = el
class TStruct(T):
    def __init__(s, fields, packed): s.fields = fields; s.packed = packed
    def __repr__(s): return '{%s}' % ','.join(map(repr, s.fields))
class TNamed(T):
    def __init__(s, name): s.name = name
    def __repr__(s): return s.name
class TFunc(T):
    def __init__(s, ret, args, va): s.ret = ret; s.args = args; s.va = va
    def __repr__(s): return '%r(%s)' % (s.ret, ','.join(map(repr, s.args)))
class TOpaque(T): pass
class TMeta(T): pass

PARAM_ATTRS = {'noundef','nonnull','nocapture','readonly','writeonly','noalias','signext','zeroext','returned',
 'immarg','inreg','nest','readnone','nofree','swiftself','byval','sret','align','dereferenceable',
 'dereferenceable_or_null','inalloca','preallocated','noalias','nofpclass'}

class P:
    """token-stream parser"""
    def __init__(s, toks): s.t = toks; s.i = 0
    def peek(s, o=0): return s.t[s.i+o] if s.i+o < len(s.t) else (None, None)
    def next(s): r = s.t[s.i]; s.i += 1; return r
    def accept(s, v):
        if s.peek()[1] == v: s.i += 1; return True
        return False
    def expect(s, v):
        if not s.accept(v): raise SyntaxError("expected %r got %r in %r" % (v, s.peek(), s.t[max(0,s.i-5):s.i+5]))
    def eof(s): return s.i >= len(s.t)

    def type(s):
        k, v = s.next()
        if k == 'id':
            if v == 'void': t = TVoid()
            elif re.fullmatch(r'i\d+', v): t = TInt(int(v[1:]))
            elif v in ('float','double','x86_fp80','half','fp128'): t = TFP(v)
            elif v == 'opaque': t = TOpaque()
            elif v == 'metadata': t = TMeta()
            elif v == 'ptr': t = TPtr(TInt(8))
            elif v == 'label': t = TMeta()
            else: raise SyntaxError("type? %r" % v)
        elif k == 'local': t = TNamed(v)
        elif v == '[':
            n = int(s.next()[1]); s.expect_id('x'); el = s.type(); s.expect(']'); t = TArr(n, el)
        elif v == '{':
            t = TStruct(s.typelist('}'), False)
        elif v == '<':
            if s.peek()[1] == '{':
                s.next(); f = s.typelist('}'); s.expect('>'); t = TStruct(f, True)
            else:
                n = int(s.next()[1]); s.expect_id('x'); el = s.type(); s.expect('>'); t = TVec(n, el)
        else: raise SyntaxError("type? %r %r" % (k, v))
        while True:
            if s.accept('*'): t = TPtr(t)
            elif s.peek()[1] == '(' :
                # function type
                s.next(); args = []; va = False
                while not s.accept(')'):
                    if s.accept('...'): va = True
                    else:
                        args.append(s.type()); s.skip_param_attrs()
                    s.accept(',')
                t = TFunc(t, args, va)
            else: break
        return t
    def expect_id(s, v):
        k, x = s.next()
        if x != v: raise SyntaxError("expected %s" % v)
    def typelist(s, close):
        out = []
        while not s.accept(close):
            out.append(s.type()); s.accept(',')
        return out
    def skip_param_attrs(s):
        while True:
            k, v = s.peek()
            if k == 'id' and v in PARAM_ATTRS:
                s.next()
                if s.peek()[1] == '(':
                    d = 0
                    while True:
                        x = s.next()[1]
                        if x == '(': d += 1
                        elif x == ')':
                            d -= 1
                            if d == 0: break
                elif v == 'align' and s.peek()[0] == 'num': s.next()
            else: break

    # values: returns python tuples
    def value(s, ty):
        k, v = s.peek()
        if k == 'local': s.next(); return ('local', v)
        if k == 'glob': s.next(); return ('glob', v)
        if k == 'num': s.next(); return ('num', v)
        if k == 'cstr': s.next(); return ('cstr', v)
        if k == 'meta':
            s.next(); return ('meta', v)
        if k == 'id':
            if v in ('true','false','null','undef','poison','zeroinitializer','none'):
                s.next(); return (v,)
            if v in ('getelementptr',):
                s.next(); inb = s.accept('inbounds'); s.expect('(')
                bt = s.type(); s.expect(',')
                pt = s.type(); pv = s.value(pt); idx = []
                while s.accept(','):
                    s.accept('inrange')
                    it = s.type(); idx.append((it, s.value(it)))
                s.expect(')')
                return ('cgep', bt, pt, pv, idx)
            if v in ('bitcast','ptrtoint','inttoptr','addrspacecast','trunc','zext','sext'):
                s.next(); s.expect('('); ft = s.type(); fv = s.value(ft); s.expect_id('to'); tt = s.type(); s.expect(')')
                return ('ccast', v, ft, fv, tt)
            if v in ('add','sub','mul','and','or','xor','shl','lshr','ashr'):
                s.next()
                while s.peek()[1] in ('nuw','nsw','exact'): s.next()
                s.expect('('); at = s.type(); av = s.value(at); s.expect(','); bt = s.type(); bv = s.value(bt); s.expect(')')
                return ('cbin', v, at, av, bv)
            if v == 'dso_local_equivalent' or v == 'no_cfi':
                s.next(); return s.value(ty)
        if v == '{' or (v == '<' and s.peek(1)[1] == '{'):
            if v == '<': s.next()
            s.next(); el = []
            while not s.accept('}'):
                et = s.type(); el.append((et, s.value(et))); s.accept(',')
            if v == '<': s.expect('>')
            return ('agg', el)
        if v == '[':
            s.next(); el = []
            while not s.accept(']'):
                et = s.type(); el.append((et, s.value(et))); s.accept(',')
            return ('agg', el)
        if v == '<':
            s.next(); el = []
            while not s.accept('>'):
                et = s.type(); el.append((et, s.value(et))); s.accept(',')
            return ('agg', el)
        raise SyntaxError("value? %r %r in %r" % (k, v, s.t[max(0,s.i-6):s.i+6]))

def cid(name):
    """LLVM name -> C identifier"""
    n = name
    if n[0] in '%@': n = n[1:]
    if n.startswith('"'): n = n[1:-1]
    if re.fullmatch(r'[A-Za-z_][A-Za-z0-9_]*', n): return n
    h = hashlib.md5(n.encode()).hexdigest()[:6]
    return re.sub(r'[^A-Za-z0-9_]', '_', n)[:60] + '_' + h

class Func:
    def __init__(s): s.blocks = []; s.params = []; s.name = None; s.ret = None; s.va = False; s.defined = False

class Module:
    def __init__(s):
        s.types = {}      # name -> T
        s.globals = {}    # name -> (type, init or None, isconst)
        s.funcs = {}      # name -> Func
        s.aliases = {}
        s.order = []

def parse_module(text):
    m = Module()
    lines = text.split('\n')
    i = 0
    while i < len(lines):
        ln = lines[i]; i += 1
        if not ln or ln[0] == ';' or ln.startswith(('source_filename','target ','attributes ','!', '$')): continue
        if ln[0] == '%':
            toks = lex(ln); p = P(toks)
            name = p.next()[1]; p.expect('='); p.expect_id('type')
            m.types[name] = p.type()
            continue
        if ln[0] == '@':
            toks = lex(ln); p = P(toks)
            name = p.next()[1]; p.expect('=')
            isconst = False; ext = False; alias = False
            while True:
                k, v = p.peek()
                if v in ('global','constant'): p.next(); isconst = (v == 'constant'); break
                if v == 'alias' or v == 'ifunc': p.next(); alias = True; break
                if v == 'external' or v == 'extern_weak': ext = True
                if v == 'thread_local' and p.peek(1)[1] == '(':
                    p.next(); p.next(); p.next(); p.next(); continue
                p.next()
            if alias:
                t = p.type(); p.expect(',')
                if p.peek()[1] == 'bitcast':
                    # alias T, bitcast (T2* @target to T*)   (e.g. a derived destructor aliased to the base one)
                    p.next(); p.expect('('); t2 = p.type(); v = p.value(t2); p.expect('to'); p.type(); p.expect(')')
                else:
                    t2 = p.type(); v = p.value(t2)
                m.aliases[name] = v
                continue
            t = p.type()
            init = None
            if not ext and not p.eof() and p.peek()[1] != ',':
                init = p.value(t)
            m.globals[name] = (t, init, isconst)
            m.order.append(name)
            continue
        if ln.startswith('declare') or ln.startswith('define'):
            toks = lex(ln); p = P(toks)
            isdef = p.next()[1] == 'define'
            # skip linkage etc until a type followed by @name
            # find the glob token followed by '('
            gi = None
            for j, (k, v) in enumerate(toks):
                if k == 'glob' and j+1 < len(toks) and toks[j+1][1] == '(':
                    gi = j; break
            # return type: tokens before gi, after skipping known keywords
            # parse backwards: simplest: try each start position until type parse consumes up to gi
            f = Func(); f.name = toks[gi][1]; f.defined = isdef
            for st in range(1, gi):
                try:
                    q = P(toks[st:gi]); t = q.type()
                    if q.eof(): f.ret = t; break
                except Exception: pass
            if f.ret is None: raise SyntaxError("ret type? " + ln)
            p.i = gi + 2
            while not p.accept(')'):
                if p.accept('...'): f.va = True
                else:
                    t = p.type(); p.skip_param_attrs()
                    nm = None
                    if p.peek()[0] == 'local': nm = p.next()[1]
                    f.params.append((t, nm))
                p.accept(',')
            if isdef:
                cur = None
                # implicit entry label number = number of params (unnamed count)
                while True:
                    ln = lines[i]; i += 1
                    if ln == '}': break
                    if not ln.strip(): continue
                    mlab = re.match(r'^([-a-zA-Z$._0-9]+|"[^"]*"):', ln)
                    if mlab:
                        cur = ['%' + mlab.group(1), []]; f.blocks.append(cur); continue
                    if cur is None:
                        cur = [None, []]; f.blocks.append(cur)
                    s = ln.strip()
                    # multi-line instructions (invoke .. to label, switch [ ... ], landingpad clauses)
                    if s.startswith('switch') and s.endswith('['):
                        while not lines[i].strip().startswith(']'):
                            s += ' ' + lines[i].strip(); i += 1
                        s += ' ]'; i += 1
                    elif ('invoke ' in s) and ' to label ' not in s:
                        s += ' ' + lines[i].strip(); i += 1
                    elif ' landingpad ' in s:
                        while lines[i].strip().startswith(('catch','cleanup','filter')):
                            s += ' ' + lines[i].strip(); i += 1
                    cur[1].append(s)
            m.funcs[f.name] = f
            continue
    return m

# ---------------- C emission
class Emit:
    def __init__(s, m, roots, models, opts):
        s.m = m; s.out = []; s.structs_done = set(); s.lit_structs = {}; s.decls = []
        s.roots = roots; s.models = models; s.opts = opts
        s.retype = {}
        for nm, ts in opts.get('retype', {}).items():
            if nm in m.types: s.retype[nm] = P(lex(ts)).type()
        s.used_globals = []; s.used_funcs = []; s.seen = set()
        s.unmodelled = set()

    # ---- types
    def resolve(s, t):
        while isinstance(t, TNamed): t = s.m.types[t.name]
        return t
    def ctype(s, t):
        if isinstance(t, TVoid): return 'void'
        if isinstance(t, TInt):
            n = t.n
            if n == 1: return '_Bool'
            if n <= 8: return 'unsigned char'
            if n <= 16: return 'unsigned short'
            if n <= 32: return 'unsigned int'
            if n <= 64: return 'unsigned long'
            if n <= 128: return 'unsigned __int128'
            raise NotImplementedError('i%d' % n)
        if isinstance(t, TFP):
            return {'float':'float','double':'double','x86_fp80':'long double'}[t.k]
        if isinstance(t, TPtr): return 'char*'
        if isinstance(t, TNamed):
            r = s.m.types[t.name]
            if isinstance(r, TOpaque): return 'char'
            s.need_struct(t.name)
            return 'struct S_' + cid(t.name)
        if isinstance(t, TStruct):
            key = repr(t) + str(t.packed)
            if key not in s.lit_structs:
                nm = 'L_' + hashlib.md5(key.encode()).hexdigest()[:8]
                s.lit_structs[key] = nm
                s.emit_struct_def(nm, t)
            return 'struct ' + s.lit_structs[key]
        if isinstance(t, TArr):
            key = 'arr' + repr(t)
            if key not in s.lit_structs:
                nm = 'A_' + hashlib.md5(key.encode()).hexdigest()[:8]
                s.lit_structs[key] = nm
                el = s.ctype(t.el)
                s.decls.append('struct %s { %s a[%d]; };' % (nm, el, max(t.n, 1)))
            return 'struct ' + s.lit_structs[key]
        if isinstance(t, TFunc): return 'char'
        if isinstance(t, TOpaque): return 'char'
        raise NotImplementedError(repr(t))
    def need_struct(s, name):
        if name in s.structs_done: return
        s.structs_done.add(name)
        t = s.m.types[name]
        if name in s.retype:
            # byte-array storage (e.g. __aligned_membuf) given the type of the object that lives in it, so that
            # CBMC sees typed fields instead of byte_extract/byte_update over a char array
            x = s.retype[name]
            pad = s.llsize(t)[0] - s.llsize(x)[0]
            assert pad >= 0, 'retype %s: hinted type is larger than the storage' % name
            s.decls.append('struct S_%s { %s f0typed; %s};' % (cid(name), s.ctype(x), ('unsigned char pad[%d]; ' % pad) if pad else ''))
            return
        if isinstance(t, TStruct): s.emit_struct_def('S_' + cid(name), t)
        else: s.decls.append('struct S_%s { %s v; };' % (cid(name), s.ctype(t)))
    def emit_struct_def(s, nm, t):
        fs = []
        for i, f in enumerate(t.fields):
            fs.append('%s f%d;' % (s.ctype(f), i))
        if not fs: fs = ['char _empty;']
        s.decls.append('struct %s { %s }%s;' % (nm, ' '.join(fs), ' __attribute__((packed))' if t.packed else ''))

    def llsize(s, t):
        """(size, align) of an LLVM type under the x86-64 data layout"""
        t = s.resolve(t)
        if isinstance(t, TInt):
            b = max(1, (t.n + 7) // 8)
            n = 1
            while n < b: n *= 2
            return n, min(n, 16)
        if isinstance(t, TFP): return {'float': (4, 4), 'double': (8, 8), 'x86_fp80': (16, 16), 'half': (2, 2), 'fp128': (16, 16)}[t.k]
        if isinstance(t, TPtr): return 8, 8
        if isinstance(t, TArr):
            sz, al = s.llsize(t.el); return sz * t.n, al
        if isinstance(t, TStruct):
            off = 0; mal = 1
            for f in t.fields:
                sz, al = s.llsize(f)
                if t.packed: al = 1
                off = (off + al - 1) // al * al + sz; mal = max(mal, al)
            return (off + mal - 1) // mal * mal, mal
        raise NotImplementedError('sizeof %r' % (t,))

    def zero(s, t):
        t0 = s.resolve(t)
        if isinstance(t0, (TInt, TFP, TPtr)): return '0'
        return '(%s){0}' % s.ctype(t)

    # ---- constants
    def const(s, t, v, static=False):
        k = v[0]
        t0 = s.resolve(t)
        if k == 'num':
            x = v[1]
            if isinstance(t0, TFP):
                if x.startswith('0x'):
                    if x[2] in 'KLMHR': raise NotImplementedError('fp80 const')
                    import struct
                    d = struct.unpack('>d', bytes.fromhex(x[2:].rjust(16, '0')))[0]
                    if d != d: return '(0.0/0.0)'
                    if d in (float('inf'), float('-inf')): return '(%s1.0/0.0)' % ('-' if d < 0 else '')
                    return ('(float)' if t0.k == 'float' else '') + d.hex()
                return x
            n = int(x)
            if isinstance(t0, TInt):
                if n < 0: n += (1 << t0.n)
                if t0.n > 64: return '(((unsigned __int128)%dUL<<64)|%dUL)' % (n >> 64, n & ((1<<64)-1))
                return '%dU%s' % (n, 'L' if t0.n > 32 else '')
            return str(n)
        if k == 'true': return '1'
        if k == 'false': return '0'
        if k == 'null': return '((char*)0)'
        if k in ('undef','poison','zeroinitializer','none'):
            if isinstance(t0, (TInt, TFP)): return '0'
            if isinstance(t0, TPtr): return '((char*)0)'
            return '{0}' if static else s.zero(t)
        if k == 'glob':
            return s.globref(v[1])
        if k == 'cstr':
            raw = v[1][2:-1]
            bs = []; i = 0
            while i < len(raw):
                if raw[i] == '\\':
                    if raw[i+1] == '\\': bs.append(92); i += 2
                    else: bs.append(int(raw[i+1:i+3], 16)); i += 3
                else: bs.append(ord(raw[i])); i += 1
            body = '{{%s}}' % ','.join(map(str, bs))
            return body if static else '(%s)%s' % (s.ctype(t), body)
        if k == 'agg':
            if isinstance(t0, TArr):
                body = '{{%s}}' % ','.join(s.const(et, ev, True) for et, ev in v[1])
            else:
                body = '{%s}' % ','.join(s.const(et, ev, True) for et, ev in v[1])
            return body if static else '(%s)%s' % (s.ctype(t), body)
        if k == 'ccast':
            op, ft, fv, tt = v[1:]
            inner = s.const(ft, fv, static)
            if op in ('bitcast','addrspacecast'): return inner
            if op == 'ptrtoint': return '((%s)%s)' % (s.ctype(tt), inner)
            if op == 'inttoptr': return '((char*)%s)' % inner
            return '((%s)%s)' % (s.ctype(tt), inner)
        if k == 'cgep':
            bt, pt, pv, idx = v[1:]
            base = s.const(pt, pv, static)
            return s.gep_expr(bt, base, [(it, s.const(it, iv, static)) for it, iv in idx], [iv for it, iv in idx])
        if k == 'cbin':
            op, at, av, bv = v[1:]
            cop = {'add':'+','sub':'-','mul':'*','and':'&','or':'|','xor':'^','shl':'<<','lshr':'>>'}[op]
            return '(%s %s %s)' % (s.const(at, av, static), cop, s.const(at, bv, static))
        raise NotImplementedError('const %r' % (v,))

    def globref(s, name):
        while name in s.m.aliases:
            a = s.m.aliases[name]
            if a[0] == 'glob': name = a[1]
            else: return s.const(None, a)
        if name in s.m.funcs:
            s.use_func(name)
            return '((char*)&%s)' % s.fname(name)
        if name in s.m.globals:
            s.use_global(name)
            return '((char*)&%s)' % ('G_' + cid(name))
        raise KeyError(name)
    def fname(s, name):
        n = cid(name)
        if n in ('main',): n = 'llvm_' + n
        return n
    def use_func(s, name):
        if name not in s.seen:
            s.seen.add(name); s.used_funcs.append(name)
    def use_global(s, name):
        if name not in s.seen:
            s.seen.add(name); s.used_globals.append(name)

    def gep_expr(s, bt, base, idx, rawidx):
        """idx: list of (type, cexpr); returns char* expr"""
        e = '((%s*)%s)' % (s.ctype(bt), base)
        first = idx[0][1]
        e = '%s[(long)%s]' % (e, s.sx(idx[0][0], first))
        t = bt
        rest = list(zip(idx[1:], rawidx[1:]))
        for k, ((it, ie), raw) in enumerate(rest):
            if isinstance(t, TNamed) and t.name in s.retype:
                # remaining indices address bytes of the storage: {[N x i8]} -> field 0, then byte index
                assert len(rest) - k <= 2, 'gep into retyped storage'
                if len(rest) - k == 2:
                    (bt_, be), braw = rest[k + 1]
                    return '(((char*)&%s) + (long)%s)' % (e, s.sx(bt_, be))
                return '((char*)&%s)' % e
            t0 = s.resolve(t)
            if isinstance(t0, TStruct):
                n = int(raw[1]) if raw[0] == 'num' else None
                e = '%s.f%d' % (e, n); t = t0.fields[n]
            elif isinstance(t0, TArr):
                e = '%s.a[(long)%s]' % (e, s.sx(it, ie)); t = t0.el
            else: raise NotImplementedError('gep into %r' % t0)
        return '((char*)&%s)' % e
    def sx(s, t, e):
        t0 = s.resolve(t)
        n = t0.n
        sty = {8:'signed char',16:'short',32:'int',64:'long'}[n]
        return '(%s)%s' % (sty, e)

    # ---- functions
    def fsig(s, f):
        ps = []
        for i, (t, nm) in enumerate(f.params):
            ps.append('%s %s' % (s.ctype(t), s.lname(nm) if nm else 'p%d' % i))
        if f.va: ps.append('...')
        return '%s %s(%s)' % (s.ctype(f.ret), s.fname(f.name), ', '.join(ps) if ps else 'void')
    def lname(s, nm):
        return 'v_' + cid(nm)

    def run(s):
        for r in s.roots: s.use_func('@' + r)
        bodies = []
        i = 0; gi = 0
        gdefs = []
        while i < len(s.used_funcs) or gi < len(s.used_globals):
            while i < len(s.used_funcs):
                name = s.used_funcs[i]; i += 1
                f = s.m.funcs[name]
                if s.fname(name) in s.models: continue
                if f.defined: bodies.append(s.emit_func(f))
                else: bodies.append(s.emit_stub(f))
            while gi < len(s.used_globals):
                name = s.used_globals[gi]; gi += 1
                t, init, isconst = s.m.globals[name]
                ct = s.ctype(t)
                if init is None: gdefs.append(('extern %s G_%s;' % (ct, cid(name)), None))
                else: gdefs.append(('extern %s G_%s;' % (ct, cid(name)), '%s G_%s = %s;' % (ct, cid(name), s.wrapinit(t, init))))
        protos = []
        for name in s.used_funcs:
            f = s.m.funcs[name]
            protos.append(s.fsig(f) + ';')
        hdr = ['#include <stddef.h>', 'extern int __exc_pending; extern char* __exc_obj;',
               'void *malloc(size_t); void free(void*); void *memcpy(void*,const void*,size_t); void *memmove(void*,const void*,size_t); void *memset(void*,int,size_t);']
        return '\n'.join(hdr + s.decls + [g[0] for g in gdefs] + protos + [g[1] for g in gdefs if g[1]] + bodies) + '\n'
    def wrapinit(s, t, init):
        c = s.const(t, init, True)
        return c

    def emit_stub(s, f):
        s.unmodelled.add(f.name)
        ret = '' if isinstance(f.ret, TVoid) else ' %s r; return r;' % s.ctype(f.ret)
        return '%s { __CPROVER_assert(0, "unmodelled external %s");%s }' % (s.fsig(f), f.name.replace('"',''), ret)

    def emit_func(s, f):
        L = []
        vt = {}  # local name -> type
        for t, nm in f.params:
            if nm: vt[nm] = t
        # number unnamed blocks: entry label
        nparams_unnamed = 0
        blocks = f.blocks
        labels = {}
        for bi, b in enumerate(blocks):
            if b[0] is None:
                # entry: implicit name = next unnamed number
                cnt = sum(1 for t, nm in f.params if nm and re.fullmatch(r'%\d+', nm))
                b[0] = '%' + str(cnt)
            labels[b[0]] = 'B_' + cid(b[0])
        insts = {}
        parsed = []
        s.defs = {}
        s.bitcasts = {}
        for b in blocks:
            pb = []
            for ln in b[1]:
                pi = s.parse_inst(ln, vt)
                if pi['dst']: s.defs[pi['dst']] = pi
                if pi['op'] == 'bitcast' and pi['a'][0] == 'local' and isinstance(pi['ty'], TPtr):
                    s.bitcasts.setdefault(pi['a'][1], pi['ty'].to)
                pb.append(pi)
            parsed.append((b[0], pb))
        # phi collection
        phis = {}  # block -> list of (dest, type, [(val, pred)])
        for lab, pb in parsed:
            for ins in pb:
                if ins['op'] == 'phi': phis.setdefault(lab, []).append(ins)
        def edge(frm, to):
            ps = phis.get(to, [])
            if not ps: return 'goto %s;' % labels[to]
            c = []
            for n, ph in enumerate(ps):
                val = [v for v, p in ph['inc'] if p == frm]
                c.append('%s_t = %s;' % (s.lname(ph['dst']), s.val(ph['ty'], val[0])))
            for ph in ps:
                c.append('%s = %s_t;' % (s.lname(ph['dst']), s.lname(ph['dst'])))
            return '{ %s goto %s; }' % (' '.join(c), labels[to])
        s.allocas = []
        retzero = 'return;' if isinstance(f.ret, TVoid) else 'return %s;' % s.zero(f.ret)
        for lab, pb in parsed:
            L.append('%s: ;' % labels[lab])
            for ins in pb:
                L.extend(s.emit_inst(ins, lab, edge, retzero, f))
        decl = []
        pnames = set(nm for t, nm in f.params if nm)
        for nm, t in vt.items():
            if nm in pnames: continue
            if isinstance(t, TVoid): continue
            decl.append('%s %s;' % (s.ctype(t), s.lname(nm)))
        decl.extend(s.allocas)
        for lab in phis:
            for ph in phis[lab]:
                decl.append('%s %s_t;' % (s.ctype(ph['ty']), s.lname(ph['dst'])))
        return '%s {\n  %s\n  %s\n}' % (s.fsig(f), '\n  '.join(decl), '\n  '.join(L))

    def val(s, t, v):
        if v[0] == 'local': return s.lname(v[1])
        if v[0] == 'meta': return '0'
        return s.const(t, v)

    # ---- instruction parsing
    def parse_inst(s, ln, vt):
        toks = lex(ln)
        # strip trailing metadata ", !tbaa !5" and attribute groups
        cut = len(toks)
        for j, (k, v) in enumerate(toks):
            if k == 'meta' and j > 0 and toks[j-1][1] == ',' and v not in ('!',) :
                # only cut if it's a named metadata attachment like !tbaa
                if re.fullmatch(r'![a-zA-Z_.]+', v): cut = j - 1; break
        toks = toks[:cut]
        p = P(toks)
        ins = {'dst': None}
        if p.peek()[0] == 'local' and p.peek(1)[1] == '=':
            ins['dst'] = p.next()[1]; p.next()
        k, op = p.next()
        while op in ('tail','musttail','notail'): k, op = p.next()
        ins['op'] = op
        def setty(t):
            ins['ty'] = t
            if ins['dst']: vt[ins['dst']] = t
        if op in ('add','sub','mul','udiv','sdiv','urem','srem','and','or','xor','shl','lshr','ashr','fadd','fsub','fmul','fdiv','frem'):
            fl = []
            while p.peek()[1] in ('nuw','nsw','exact','fast','nnan','ninf','nsz','arcp','contract','afn','reassoc'): fl.append(p.next()[1])
            t = p.type(); a = p.value(t); p.expect(','); b = p.value(t)
            ins.update(fl=fl, a=a, b=b); setty(t)
        elif op == 'fneg':
            while p.peek()[1] in ('fast','nnan','ninf','nsz','arcp','contract','afn','reassoc'): p.next()
            t = p.type(); a = p.value(t); ins.update(a=a); setty(t)
        elif op in ('icmp','fcmp'):
            while p.peek()[1] in ('fast','nnan','ninf','nsz','arcp','contract','afn','reassoc'): p.next()
            pred = p.next()[1]; t = p.type(); a = p.value(t); p.expect(','); b = p.value(t)
            ins.update(pred=pred, oty=t, a=a, b=b); setty(TInt(1))
        elif op == 'alloca':
            p.accept('inalloca'); t = p.type(); n = None
            if p.accept(','):
                if p.peek()[1] == 'align': pass
                else:
                    nt = p.type(); n = (nt, p.value(nt))
            ins.update(aty=t, n=n); setty(TPtr(t))
        elif op == 'load':
            p.accept('atomic'); p.accept('volatile'); t = p.type(); p.expect(','); pt = p.type(); a = p.value(pt)
            ins.update(a=a); setty(t)
        elif op == 'store':
            p.accept('atomic'); p.accept('volatile'); t = p.type(); v = p.value(t); p.expect(','); pt = p.type(); a = p.value(pt)
            ins.update(vty=t, v=v, a=a)
        elif op == 'getelementptr':
            p.accept('inbounds'); bt = p.type(); p.expect(','); pt = p.type(); pv = p.value(pt); idx = []
            while p.accept(','):
                it = p.type(); idx.append((it, p.value(it)))
            ins.update(bt=bt, pv=pv, idx=idx); setty(TPtr(TInt(8)))
        elif op in ('bitcast','trunc','zext','sext','ptrtoint','inttoptr','fptrunc','fpext','fptoui','fptosi','uitofp','sitofp','addrspacecast','freeze'):
            if op == 'freeze':
                t = p.type(); a = p.value(t); ins.update(fty=t, a=a); setty(t)
            else:
                ft = p.type(); a = p.value(ft); p.expect_id('to'); tt = p.type()
                ins.update(fty=ft, a=a); setty(tt)
        elif op == 'phi':
            while p.peek()[1] in ('fast','nnan','ninf','nsz','arcp','contract','afn','reassoc'): p.next()
            t = p.type(); inc = []
            while True:
                p.expect('['); v = p.value(t); p.expect(','); lab = p.next()[1]; p.expect(']')
                inc.append((v, lab))
                if not p.accept(','): break
            ins.update(inc=inc); setty(t)
        elif op == 'select':
            while p.peek()[1] in ('fast','nnan','ninf','nsz','arcp','contract','afn','reassoc'): p.next()
            ct = p.type(); c = p.value(ct); p.expect(','); t = p.type(); a = p.value(t); p.expect(','); t2 = p.type(); b = p.value(t2)
            ins.update(c=c, a=a, b=b); setty(t)
        elif op in ('call','invoke'):
            # skip cconv / ret attrs
            while True:
                k, v = p.peek()
                if k == 'id' and (v in PARAM_ATTRS or v in ('fastcc','ccc','coldcc','fast','nnan','ninf','nsz','arcp','contract','afn','reassoc')):
                    p.skip_param_attrs()
                    if p.peek()[1] in ('fastcc','ccc','coldcc','fast','nnan','ninf','nsz','arcp','contract','afn','reassoc'): p.next()
                else: break
            rt = p.type()
            fty = None
            if isinstance(rt, TFunc): fty = rt; rt = rt.ret
            elif isinstance(rt, TPtr) and isinstance(rt.to, TFunc) and p.peek()[0] in ('glob','local') and p.peek(1)[1] == '(':
                pass
            callee = p.value(None)
            p.expect('(')
            args = []
            while not p.accept(')'):
                at = p.type(); p.skip_param_attrs()
                args.append((at, p.value(at))); p.accept(',')
            ins.update(callee=callee, args=args, fty=fty, rt=rt)
            if op == 'invoke':
                while p.peek()[1] != 'to': p.next()
                p.next(); p.expect_id('label'); n = p.next()[1]; p.expect_id('unwind'); p.expect_id('label'); u = p.next()[1]
                ins.update(normal=n, unwind=u)
            setty(rt)
        elif op == 'ret':
            t = p.type()
            ins.update(rty=t, v=None if isinstance(t, TVoid) else p.value(t))
        elif op == 'br':
            if p.accept('label'): ins.update(cond=None, t=p.next()[1])
            else:
                ct = p.type(); c = p.value(ct); p.expect(','); p.expect_id('label'); a = p.next()[1]; p.expect(','); p.expect_id('label'); b = p.next()[1]
                ins.update(cond=c, t=a, f=b)
        elif op == 'switch':
            t = p.type(); v = p.value(t); p.expect(','); p.expect_id('label'); d = p.next()[1]; p.expect('[')
            cases = []
            while not p.accept(']'):
                ct = p.type(); cv = p.value(ct); p.expect(','); p.expect_id('label'); cases.append((cv, p.next()[1]))
            ins.update(sty=t, v=v, default=d, cases=cases)
        elif op == 'unreachable': pass
        elif op == 'resume':
            t = p.type(); ins.update(v=p.value(t))
        elif op == 'landingpad':
            t = p.type(); setty(t)
            ins['catch'] = any(v == 'catch' for k, v in toks)
        elif op == 'extractvalue':
            t = p.type(); a = p.value(t); idx = []
            while p.accept(','): idx.append(int(p.next()[1]))
            rt = t
            for ix in idx:
                r0 = s.resolve(rt)
                rt = r0.fields[ix] if isinstance(r0, TStruct) else r0.el
            ins.update(aty=t, a=a, idx=idx); setty(rt)
        elif op == 'insertvalue':
            t = p.type(); a = p.value(t); p.expect(','); et = p.type(); ev = p.value(et); idx = []
            while p.accept(','): idx.append(int(p.next()[1]))
            ins.update(aty=t, a=a, ety=et, ev=ev, idx=idx); setty(t)
        elif op in ('fence',): pass
        elif op in ('atomicrmw','cmpxchg'):
            raise NotImplementedError(op)
        else:
            raise NotImplementedError('inst ' + ln)
        return ins

    def sty(s, t):
        n = s.resolve(t).n
        return {1:'signed char',8:'signed char',16:'short',32:'int',64:'long',128:'__int128'}[n]

    def emit_inst(s, ins, lab, edge, retzero, f):
        op = ins['op']; d = s.lname(ins['dst']) if ins['dst'] else None
        V = s.val
        if op in ('add','sub','mul','and','or','xor','udiv','urem','shl','lshr'):
            t = ins['ty']; ct = s.ctype(t)
            cop = {'add':'+','sub':'-','mul':'*','and':'&','or':'|','xor':'^','udiv':'/','urem':'%','shl':'<<','lshr':'>>'}[op]
            out = []
            a = V(t, ins['a']); b = V(t, ins['b'])
            if s.opts.get('ub') and 'nsw' in ins['fl'] and op in ('add','sub','mul'):
                st = s.sty(t)
                fn = {'add':'plus','sub':'minus','mul':'mult'}[op]
                out.append('__CPROVER_assert(!__CPROVER_overflow_%s((%s)%s,(%s)%s), "UB: signed overflow (nsw %s) in %s");' % (fn, st, a, st, b, op, f.name.replace('"','')))
            out.append('%s = (%s)((%s)%s %s (%s)%s);' % (d, ct, ct, a, cop, ct, b))
            return out
        if op in ('sdiv','srem','ashr'):
            t = ins['ty']; ct = s.ctype(t); st = s.sty(t)
            cop = {'sdiv':'/','srem':'%','ashr':'>>'}[op]
            return ['%s = (%s)((%s)%s %s (%s)%s);' % (d, ct, st, V(t, ins['a']), cop, st if op != 'ashr' else ct, V(t, ins['b']))]
        if op in ('fadd','fsub','fmul','fdiv'):
            t = ins['ty']
            cop = {'fadd':'+','fsub':'-','fmul':'*','fdiv':'/'}[op]
            return ['%s = %s %s %s;' % (d, V(t, ins['a']), cop, V(t, ins['b']))]
        if op == 'fneg': return ['%s = -%s;' % (d, V(ins['ty'], ins['a']))]
        if op == 'icmp':
            t = ins['oty']; t0 = s.resolve(t); pred = ins['pred']
            a = V(t, ins['a']); b = V(t, ins['b'])
            cop = {'eq':'==','ne':'!=','ugt':'>','uge':'>=','ult':'<','ule':'<=','sgt':'>','sge':'>=','slt':'<','sle':'<='}[pred]
            if isinstance(t0, TPtr):
                if pred in ('eq','ne'): return ['%s = (%s %s %s);' % (d, a, cop, b)]
                return ['%s = ((unsigned long)%s %s (unsigned long)%s);' % (d, a, cop, b)]
            if pred[0] == 's':
                st = s.sty(t)
                return ['%s = ((%s)%s %s (%s)%s);' % (d, st, a, cop, st, b)]
            return ['%s = (%s %s %s);' % (d, a, cop, b)]
        if op == 'fcmp':
            t = ins['oty']; pred = ins['pred']; a = V(t, ins['a']); b = V(t, ins['b'])
            base = {'oeq':'==','ogt':'>','oge':'>=','olt':'<','ole':'<=','one':'!=','ueq':'==','ugt':'>','uge':'>=','ult':'<','ule':'<=','une':'!='}
            if pred in ('true','false'): return ['%s = %d;' % (d, pred == 'true')]
            if pred == 'ord': return ['%s = (%s == %s) && (%s == %s);' % (d, a, a, b, b)]
            if pred == 'uno': return ['%s = (%s != %s) || (%s != %s);' % (d, a, a, b, b)]
            e = '(%s %s %s)' % (a, base[pred], b)
            if pred == 'one': e = '((%s < %s) || (%s > %s))' % (a, b, a, b)
            if pred[0] == 'u' and pred != 'une': e = '(%s || (%s != %s) || (%s != %s))' % (e, a, a, b, b)
            return ['%s = %s;' % (d, e)]
        if op == 'alloca':
            ct = s.ctype(ins['aty'])
            if ins['n'] is None or ins['n'][1] == ('num', '1'):
                s.allocas.append('%s %s_mem;' % (ct, d))
                return ['%s = (char*)&%s_mem;' % (d, d)]
            return ['%s = (char*)__builtin_alloca(sizeof(%s) * %s);' % (d, ct, V(ins['n'][0], ins['n'][1]))]
        if op == 'load':
            return ['%s = *(%s*)%s;' % (d, s.ctype(ins['ty']), V(None, ins['a']))]
        if op == 'store':
            return ['*(%s*)%s = %s;' % (s.ctype(ins['vty']), V(None, ins['a']), V(ins['vty'], ins['v']))]
        if op == 'getelementptr':
            idx = [(it, V(it, iv)) for it, iv in ins['idx']]
            return ['%s = %s;' % (d, s.gep_expr(ins['bt'], V(None, ins['pv']), idx, [iv for it, iv in ins['idx']]))]
        if op in ('bitcast','addrspacecast','freeze'):
            ft = s.resolve(ins['fty']); tt = s.resolve(ins['ty'])
            if isinstance(ft, TPtr) or op == 'freeze' or type(ft) == type(tt) and not isinstance(ft, (TInt, TFP)):
                return ['%s = %s;' % (d, V(ins['fty'], ins['a']))]
            # int<->fp bit reinterpretation
            return ['{ %s _x = %s; memcpy(&%s, &_x, sizeof(_x)); }' % (s.ctype(ins['fty']), V(ins['fty'], ins['a']), d)]
        if op in ('trunc','zext'):
            return ['%s = (%s)%s;' % (d, s.ctype(ins['ty']), V(ins['fty'], ins['a']))]
        if op == 'sext':
            if s.resolve(ins['fty']).n == 1:
                return ['%s = (%s)(%s ? -1 : 0);' % (d, s.ctype(ins['ty']), V(ins['fty'], ins['a']))]
            return ['%s = (%s)(%s)(%s)%s;' % (d, s.ctype(ins['ty']), s.sty(ins['ty']), s.sty(ins['fty']), V(ins['fty'], ins['a']))]
        if op == 'ptrtoint': return ['%s = (%s)(unsigned long)%s;' % (d, s.ctype(ins['ty']), V(ins['fty'], ins['a']))]
        if op == 'inttoptr': return ['%s = (char*)(unsigned long)%s;' % (d, V(ins['fty'], ins['a']))]
        if op in ('fptrunc','fpext','uitofp'): return ['%s = (%s)%s;' % (d, s.ctype(ins['ty']), V(ins['fty'], ins['a']))]
        if op == 'sitofp': return ['%s = (%s)(%s)%s;' % (d, s.ctype(ins['ty']), s.sty(ins['fty']), V(ins['fty'], ins['a']))]
        if op == 'fptoui': return ['%s = (%s)%s;' % (d, s.ctype(ins['ty']), V(ins['fty'], ins['a']))]
        if op == 'fptosi': return ['%s = (%s)(%s)%s;' % (d, s.ctype(ins['ty']), s.sty(ins['ty']), V(ins['fty'], ins['a']))]
        if op == 'phi': return []
        if op == 'select':
            return ['%s = %s ? %s : %s;' % (d, V(TInt(1), ins['c']), V(ins['ty'], ins['a']), V(ins['ty'], ins['b']))]
        if op == 'extractvalue':
            e = V(ins['aty'], ins['a']); t = ins['aty']
            for ix in ins['idx']:
                t0 = s.resolve(t)
                if isinstance(t0, TStruct): e += '.f%d' % ix; t = t0.fields[ix]
                else: e += '.a[%d]' % ix; t = t0.el
            return ['%s = %s;' % (d, e)]
        if op == 'insertvalue':
            e = d; t = ins['aty']
            for ix in ins['idx']:
                t0 = s.resolve(t)
                if isinstance(t0, TStruct): e += '.f%d' % ix; t = t0.fields[ix]
                else: e += '.a[%d]' % ix; t = t0.el
            return ['%s = %s; %s = %s;' % (d, V(ins['aty'], ins['a']), e, V(ins['ety'], ins['ev']))]
        if op == 'ret':
            if ins['v'] is None: return ['return;']
            return ['return %s;' % V(ins['rty'], ins['v'])]
        if op == 'br':
            if ins['cond'] is None: return [edge(lab, ins['t'])]
            return ['if (%s) %s else %s' % (V(TInt(1), ins['cond']), edge(lab, ins['t']), edge(lab, ins['f']))]
        if op == 'switch':
            out = []
            for cv, tl in ins['cases']:
                out.append('if (%s == %s) %s' % (V(ins['sty'], ins['v']), s.const(ins['sty'], cv), edge(lab, tl)))
            out.append(edge(lab, ins['default']))
            return out
        if op == 'unreachable': return ['__CPROVER_assume(0); %s' % retzero]
        if op == 'resume': return ['__exc_pending = 1; %s' % retzero]
        if op == 'landingpad':
            # the exception is now 'in flight' in this frame: cleanup calls made from the landing pad must not be mistaken for
            # throwing ones (the flag is raised again by `resume`, and stays clear after __cxa_begin_catch)
            return ['%s.f0 = __exc_obj; %s.f1 = %d; __exc_pending = 0;' % (d, d, 1 if ins['catch'] else 0)]
        if op in ('call','invoke'):
            return s.emit_call(ins, lab, edge, retzero)
        if op == 'fence': return []
        raise NotImplementedError(op)

    def emit_call(s, ins, lab, edge, retzero):
        d = s.lname(ins['dst']) if ins['dst'] else None
        callee = ins['callee']; args = ins['args']
        A = [s.val(t, v) for t, v in args]
        isvoid = isinstance(ins['rt'], TVoid)
        pre = '' if (isvoid or not d) else d + ' = '
        tail = []
        if ins['op'] == 'invoke':
            tail = ['if (__exc_pending) %s else %s' % (edge(lab, ins['unwind']), edge(lab, ins['normal']))]
        if callee[0] == 'glob':
            name = callee[1]
            n = name[1:]
            if n.startswith('llvm.'):
                r = s.intrinsic(n, ins, A, d)
                return r + ([edge(lab, ins['normal'])] if ins['op'] == 'invoke' else [])
            while name in s.m.aliases and s.m.aliases[name][0] == 'glob': name = s.m.aliases[name][1]
            if n in ('_Znwm', '_Znam') and d and ins['dst'] in s.bitcasts:
                # typed allocation: CBMC derives the dynamic object's type from the sizeof pattern, which keeps
                # field sensitivity and constant propagation for heap objects (operator new never fails: models.c)
                et = s.bitcasts[ins['dst']]
                try:
                    esz = s.llsize(et)[0]
                except Exception:
                    esz = None
                r0 = s.resolve(et)
                sizearg = args[0][1]
                alloc = None
                if esz and sizearg[0] == 'num' and int(sizearg[1]) == esz and isinstance(r0, (TStruct, TArr)):
                    alloc = 'malloc(sizeof(%s))' % s.ctype(et)
                elif esz and isinstance(r0, (TInt, TFP, TPtr)) and esz > 1:
                    alloc = 'malloc(sizeof(%s) * (%s / %dUL))' % (s.ctype(et), A[0], esz)
                if alloc:
                    return ['%s = (char*) %s; __CPROVER_assume(%s != 0);' % (d, alloc, d)] + ([edge(lab, ins['normal'])] if ins['op'] == 'invoke' else [])
            s.use_func(name)
            f = s.m.funcs[name]
            # varargs / type mismatch: cast args
            call = '%s%s(%s);' % (pre, s.fname(name), ', '.join(A))
        else:
            # indirect
            ats = ', '.join(s.ctype(t) for t, v in args)
            fp = '((%s(*)(%s))%s)' % (s.ctype(ins['rt']), ats or 'void', s.val(None, callee))
            call = '%s%s(%s);' % (pre, fp, ', '.join(A))
            slot = s.vslot(callee)
            if slot is not None:
                cands = s.vcands(slot, len(args), args[0][0] if args else None)
                parts = []
                for cn in cands:
                    s.use_func(cn)
                    parts.append('if (%s == (char*)&%s) { %s%s(%s); }' % (s.val(None, callee), s.fname(cn), pre, s.fname(cn), ', '.join(A)))
                parts.append('{ __CPROVER_assert(0, "virtual call: unexpected target (slot %d)"); }' % slot)
                call = ' else '.join(parts)
        if not tail:
            tail = ['if (__exc_pending) %s' % retzero]
        return [call] + tail

    def vslot(s, callee):
        if callee[0] != 'local': return None
        d = s.defs.get(callee[1])
        if not d or d['op'] != 'load' or d['a'][0] != 'local': return None
        g = s.defs.get(d['a'][1])
        if not g: return None
        if g['op'] == 'getelementptr' and len(g['idx']) == 1 and g['idx'][0][1][0] == 'num':
            base = g['pv']
            if base[0] == 'local' and s.defs.get(base[1], {}).get('op') == 'load': return int(g['idx'][0][1][1])
            return None
        if g['op'] == 'load': return 0
        return None
    def bases(s, cls):
        # cls: mangled class suffix e.g. 7vMemory ; returns set of ancestor suffixes incl. itself
        out = {cls}
        g = s.m.globals.get('@_ZTI' + cls)
        if g and g[1] and g[1][0] == 'agg':
            for et, ev in g[1][1][2:]:
                v = ev
                while v[0] == 'ccast': v = v[3]
                if v[0] == 'glob' and v[1].startswith('@_ZTI'): out |= s.bases(v[1][5:])
        return out
    def mangle_cls(s, t):
        if not isinstance(t, TPtr) or not isinstance(t.to, TNamed): return None
        n = t.to.name[1:].strip('"')
        n = re.sub(r'^(class|struct)\.', '', n)
        n = re.sub(r'\.\d+$', '', n)
        if '<' in n: return None
        parts = n.split('::')
        m = ''.join('%d%s' % (len(p), p) for p in parts)
        return 'N%sE' % m if len(parts) > 1 else m
    def vcands(s, slot, nargs, thisty=None):
        out = []
        static = s.mangle_cls(thisty) if thisty is not None else None
        for name, (t, init, isconst) in s.m.globals.items():
            if not name.startswith('@_ZTV') or init is None or init[0] != 'agg': continue
            if static and ('@_ZTI' + static) in s.m.globals and static not in s.bases(name[5:]): continue
            for et, ev in init[1]:
                if ev[0] != 'agg': continue
                ents = ev[1]
                # address points: positions following an RTTI entry (index>=2 of each sub-vtable); single inheritance: 2
                k = 2 + slot
                if k < len(ents):
                    v = ents[k][1]
                    while v[0] == 'ccast': v = v[3]
                    if v[0] == 'glob' and v[1] in s.m.funcs:
                        f = s.m.funcs[v[1]]
                        if len(f.params) == nargs and v[1] not in out: out.append(v[1])
        return out
    def intrinsic(s, n, ins, A, d):
        if n.startswith(('llvm.lifetime','llvm.dbg','llvm.experimental.noalias','llvm.assume','llvm.invariant','llvm.prefetch','llvm.stackprotector')): return []
        if n.startswith('llvm.memcpy'): return ['memcpy(%s, %s, %s);' % (A[0], A[1], A[2])]
        if n.startswith('llvm.memmove'): return ['memmove(%s, %s, %s);' % (A[0], A[1], A[2])]
        if n.startswith('llvm.memset'): return ['memset(%s, %s, %s);' % (A[0], A[1], A[2])]
        t = ins['rt']
        if n.startswith('llvm.abs'):
            st = s.sty(t); return ['%s = (%s)(((%s)%s) < 0 ? -(%s)%s : (%s)%s);' % (d, s.ctype(t), st, A[0], st, A[0], st, A[0])]
        for nm, sg, cop in (('umax',0,'>'),('umin',0,'<'),('smax',1,'>'),('smin',1,'<')):
            if n.startswith('llvm.' + nm):
                c = s.sty(t) if sg else s.ctype(t)
                return ['%s = ((%s)%s %s (%s)%s) ? %s : %s;' % (d, c, A[0], cop, c, A[1], A[0], A[1])]
        if n.startswith(('llvm.fshl', 'llvm.fshr')):
            # funnel shift: fshl(a, b, c) = high word of ((a:b) << (c mod w)); fshr = low word of ((a:b) >> (c mod w))
            w = t.n; ct = s.ctype(t)
            sh = '((%s) %% %du)' % (A[2], w)
            if n.startswith('llvm.fshl'):
                return ['%s = (%s == 0) ? (%s) %s : (%s) ((((%s) %s) << %s) | (((%s) %s) >> (%du - %s)));' % (d, sh, ct, A[0], ct, ct, A[0], sh, ct, A[1], w, sh)]
            return ['%s = (%s == 0) ? (%s) %s : (%s) ((((%s) %s) >> %s) | (((%s) %s) << (%du - %s)));' % (d, sh, ct, A[1], ct, ct, A[1], sh, ct, A[0], w, sh)]
        if n.startswith('llvm.expect'): return ['%s = %s;' % (d, A[0])]
        if n.startswith('llvm.eh.typeid.for'): return ['%s = 1;' % d]
        if n.startswith('llvm.objectsize'): return ['%s = -1;' % d]
        if n.startswith(('llvm.stacksave',)): return ['%s = 0;' % d]
        if n.startswith(('llvm.stackrestore',)): return []
        m = re.match(r'llvm\.(u|s)(add|sub|mul)\.with\.overflow', n)
        if m:
            at = ins['args'][0][0]; ct = s.ctype(at); c = s.sty(at) if m.group(1) == 's' else ct
            fn = {'add':'plus','sub':'minus','mul':'mult'}[m.group(2)]; cop = {'add':'+','sub':'-','mul':'*'}[m.group(2)]
            return ['%s.f0 = (%s)(%s %s %s); %s.f1 = __CPROVER_overflow_%s((%s)%s, (%s)%s);' % (d, ct, A[0], cop, A[1], d, fn, c, A[0], c, A[1])]
        if n.startswith('llvm.ctlz') or n.startswith('llvm.cttz') or n.startswith('llvm.ctpop'):
            w = s.resolve(t).n
            b = {'ctlz':'clz','cttz':'ctz','ctpo':'popcount'}[n[5:9]]
            suf = 'l' if w == 64 else ''
            if b == 'popcount': return ['%s = __builtin_popcount%s(%s);' % (d, suf, A[0])]
            return ['%s = (%s == 0) ? %d : __builtin_%s%s(%s);' % (d, A[0], w, b, suf, A[0])]
        if n.startswith('llvm.fabs'): return ['%s = __builtin_fabs(%s);' % (d, A[0])]
        if n.startswith('llvm.trap'): return ['__CPROVER_assert(0, "llvm.trap");']
        raise NotImplementedError(n)

def main():
    import argparse, json
    ap = argparse.ArgumentParser()
    ap.add_argument('ll'); ap.add_argument('-o', required=True)
    ap.add_argument('--root', action='append', default=[])
    ap.add_argument('--models', default='')
    ap.add_argument('--header', default='')
    ap.add_argument('--ub', action='store_true')
    ap.add_argument('--race', action='store_true')
    ap.add_argument('--retype', action='append', default=[], help='NAME=LLVMTYPE: give a byte-array storage struct the type of its content')
    a = ap.parse_args()
    txt = open(a.ll).read()
    txt = re.sub(r',?\s*comdat\(\$[^)]*\)', '', txt)      # `comdat($name)` (guard variables of templated statics): linkage detail, no semantics
    m = parse_module(txt)
    models = set()
    for mf in [x for x in a.models.split(',') if x]:
        for mm in re.finditer(r'^\s*(?:[A-Za-z_][\w\s\*]*?)\b([A-Za-z_]\w*)\s*\([^;{]*\)\s*\{', open(mf).read(), re.M):
            models.add(mm.group(1))
    rt = {}
    for x in a.retype:
        k, v = x.split('=', 1); rt[k] = v
    e = Emit(m, a.root, models, {'ub': a.ub, 'race': a.race, 'retype': rt})
    c = e.run()
    open(a.o, 'w').write(c)
    if a.header:
        with open(a.header, 'w') as f:
            f.write('/* prototypes of the lifted root functions (generated) */\n')
            for r in a.root:
                f.write(e.fsig(m.funcs['@' + r]) + ';\n')
    unm = sorted(x for x in e.unmodelled if cid(x) not in models)
    json.dump({'functions': [x[1:].strip('"') for x in e.used_funcs if m.funcs[x].defined and e.fname(x) not in models],
               'unmodelled': unm, 'globals': len(e.used_globals)}, open(a.o + '.json', 'w'))
    sys.stderr.write('functions: %d  globals: %d  unmodelled: %s\n' % (len(e.used_funcs), len(e.used_globals), unm))
if __name__ == '__main__': main()
