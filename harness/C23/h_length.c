/* range(start, end, step).length() equals the number of values of the sequential loop
 *   for (i = start; step > 0 ? i < end : i > end; i += step)
 * and the k-th element start + step*k (the expression the generated kernels use) is the k-th value of that loop. */
#include "vharness.h"
#include "C23_roots.h"
#ifndef U
#define U 6
#endif
#ifndef RB
#define RB 12
#endif
#define R (1L << RB)
int main(void) {
  IN(long, start); IN(long, end); IN(long, step);
  VASSUME(step != 0);                                                       /* documented precondition */
#ifdef STEPSIGN
  VASSUME(STEPSIGN > 0 ? step > 0 : step < 0);
#endif
  VASSUME(start >= -R && start <= R && end >= -R && end <= R && step >= -R && step <= R);   /* 64-bit division by a symbolic step is SAT-hard: the range is the stated bound */
  long n = 0; long vals[U + 1];
  for (long i = start; step > 0 ? i < end : i > end; i += step) {
    VASSUME(n < U);                                                         /* stated bound on the trip count */
    vals[n] = i; n++;
  }
  unsigned long len = v_length(start, end, step);
  OUT(len, len); OUT(n, n);
  VASSERT(len == (unsigned long) n, "length() equals the number of values the sequential loop takes");
  for (long k = 0; k < n && k < U; k++) VASSERT(vals[k] == start + step * k, "element k is start + step * k");
  VREACH();
  return 0;
}
