/* C30: occa::mutex_t as a CBMC lock.  All rings of one entry type share one static mutex; the model keeps one lock word per
 * mutex object address class (there is a single one in this harness). */
int verif_lockword;
void _ZN4occa7mutex_t4lockEv(char* m) { __CPROVER_atomic_begin(); __CPROVER_assume(verif_lockword == 0); verif_lockword = 1; __CPROVER_atomic_end(); }
void _ZN4occa7mutex_t6unlockEv(char* m) { __CPROVER_atomic_begin(); verif_lockword = 0; __CPROVER_atomic_end(); }
void _ZN4occa7mutex_tC1Ev(char* m) { }
void _ZN4occa7mutex_tC2Ev(char* m) { }
