/* hashing N<=NB arbitrary bytes: no UB (signed overflow / shifts / bounds are checked in the lifted
 * code with --ub).  With -DDET: result is a function of the bytes (two calls on equal bytes stored at
 * different addresses agree) -- two multiplier chains, so NB is kept at 2 for that query. */
#include "vharness.h"
#include "C27_roots.h"
#ifndef NB
#define NB 4
#endif
int main(void) {
  IN_ARR(char, buf, NB);
  IN(unsigned long, n);
  VASSUME(n <= NB);
#ifdef MINLEN
  VASSUME(n >= MINLEN);
#endif
  int o1[8] = {0}, o2[8] = {1, 1, 1, 1, 1, 1, 1, 1};
  int r1 = v_hash(buf, n, (char*) o1);
  VASSERT(r1 == 1, "hash returns an initialised hash, no exception");
  for (int i = 0; i < 8; i++) OUTI(o1, i, (unsigned) o1[i]);
#ifdef DET
  char buf2[NB];
  for (int i = 0; i < NB; i++) buf2[i] = buf[i];
  int r2 = v_hash(buf2, n, (char*) o2);
  VASSERT(r2 == 1, "hash returns an initialised hash, no exception");
  for (int i = 0; i < 8; i++) VASSERT(o1[i] == o2[i], "equal bytes give equal hashes");
#endif
  VREACH();
  return 0;
}
