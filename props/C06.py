"""C06 Kernel cache keys separate every build configuration (E3: key-term extraction from the real code + SMT).

The cache key is computed by real occa code (device::setupKernelInfo -> serial/openmp device::kernelHash, kernelHeaderHash,
hash_t::operator^).  The guarded hook in src/utils/hash.cpp records every hash computed over bytes (H) and every combination
(X) while the REAL library computes the key of a marker configuration.  From that trace the check reconstructs the key as a
term: an XOR of hashes of strings, each string a constant or pre + <value of one property> + post.  The term is regenerated
from /repo on every run and validated against the real library (predicted vs. real key equality on concrete pairs).

Decided by the solver (z3, strings): are there two configurations that differ in a listed property but whose terms are
equal for EVERY hash function H -- i.e. every string occurs an even number of times among the leaves of both terms (XOR
cancels pairs)?  sat = a collision that needs no hash collision at all; the model is replayed against the real library.
unsat = within the value domain, two keys can only coincide through a collision of the underlying 256-bit hash.
Coverage of each listed property (does its value reach the key at all) is read off the same term."""
import os, re, json, shutil, time, hashlib
from vlib import common as C, okl as O

PROPS = ['defines', 'includes', 'headers', 'functions', 'compiler', 'compiler_flags', 'compiler_linker_flags', 'compiler_shared_flags',
         'compiler_env_script', 'compiler_language', 'okl']
FLAGP = ['compiler_flags', 'compiler_linker_flags', 'compiler_shared_flags']       # string properties whose values are interchangeable on the compiler command line
BASEFLAG = '-shared -fPIC -DVAL='      # every value of the flag domain builds in all three positions
MODES = ['Serial', 'OpenMP']
SRC = '''@kernel void k(int *out) {
  for (int o = 0; o < 1; ++o; @outer) {
    for (int i = 0; i < 4; ++i; @inner) {
      out[i] = 100 * VALUE + 10 * VAL + i;
    }
  }
}
'''
ENV_DROP = ['OCCA_CXX', 'OCCA_CC', 'CXX', 'CC', 'OCCA_CXXFLAGS', 'OCCA_CFLAGS', 'CXXFLAGS', 'CFLAGS', 'OCCA_LDFLAGS', 'OCCA_COMPILER_SHARED_FLAGS',
            'OCCA_COMPILER_LANGUAGE', 'OCCA_INCLUDE_PATH', 'OCCA_LIBRARY_PATH', 'OCCA_KERNEL_PATH', 'OCCA_VERBOSE', 'OCCA_COLOR_ENABLED']


WORDS = ['', 'a', 'b', 'aa', 'ab', 'ba', 'bb']


def flagval(w):
    """abstract value (string over {a,b}, length <= 2) -> command-line value; injective, the same in every property"""
    return BASEFLAG + str(1 + WORDS.index(w))


def jdump(v):
    return json.dumps(v)


class Env:
    def __init__(self, ctx):
        self.ctx = ctx
        self.dir = os.path.dirname(ctx.path('c06', 'x'))
        os.makedirs(self.dir, exist_ok=True)
        self.n = 0
        self.inc = os.path.join(self.dir, 'mk_includes.h'); open(self.inc, 'w').write('#define MK_INC 1\n')
        self.inc2 = os.path.join(self.dir, 'mk_includes2.h'); open(self.inc2, 'w').write('#define MK_INC 2\n')
        self.src = os.path.join(self.dir, 'k.okl'); open(self.src, 'w').write(SRC)

    def build_driver(self):
        b = O.occa_bin(self.ctx)        # libocca + bin/occa from /repo's working tree, compiled with -DLIBOCCA_OCCA_VERIF
        bdir = os.path.dirname(os.path.dirname(b))
        self.bdir = bdir
        exe = os.path.join(self.dir, 'driver')
        cmd = ['g++', '-std=c++17', '-O1', '-I' + os.path.join(C.REPO, 'include'), '-I' + os.path.join(bdir, 'include'), '-I' + os.path.join(C.REPO, 'src'),
               os.path.join(C.VERIF, 'harness/C06/driver.cpp'), '-o', exe, '-L' + os.path.join(bdir, 'lib'), '-locca', '-Wl,-rpath,' + os.path.join(bdir, 'lib'), '-ldl', '-pthread']
        rc, o, e, s, _ = C.sh(cmd, timeout=600)
        if rc != 0:
            raise C.Inconclusive('C06 driver does not compile against the current tree: ' + (o + e)[-1500:])
        self.exe = exe
        return exe

    def run(self, mode, what, cfgs, cache=None, trace=True, srcs=None):
        """returns (records per configuration, trace sections per configuration)"""
        self.n += 1
        d = os.path.join(self.dir, 'r%d' % self.n); os.makedirs(d, exist_ok=True)
        cache = cache or os.path.join(d, 'cache')
        args = []
        for i, c in enumerate(cfgs):
            p = os.path.join(d, 'p%d.json' % i); open(p, 'w').write(jdump(c))
            s = self.src
            if srcs and srcs[i] is not None:
                s = os.path.join(d, 's%d.okl' % i); open(s, 'w').write(srcs[i])
            args += [p, s]
        env = {k: v for k, v in os.environ.items() if k not in ENV_DROP}
        env['OCCA_CACHE_DIR'] = cache
        env['OCCA_DIR'] = C.REPO
        hl = os.path.join(d, 'hashlog.txt')
        if trace:
            env['OCCA_VERIF_HASHLOG'] = hl
        rc, o, e, s, _ = C.sh([self.exe, mode, what] + args, timeout=600, env=env, cwd=d)
        recs = [dict() for _ in cfgs]
        mm = re.search(r'^MODE (\S+)', o, re.M)
        if not mm or mm.group(1).lower() != mode.lower():
            raise C.Inconclusive('the device created for mode %s reports mode %s: the build of /repo has no such backend, the queries would silently test another one' % (mode, mm.group(1) if mm else '?'))
        for ln in o.split('\n'):
            m = re.match(r'(KEY|BUILT) (\d+) ([0-9a-f]{64}) dir=(\S+)', ln)
            if m:
                recs[int(m.group(2))][m.group(1).lower()] = m.group(3); recs[int(m.group(2))]['dir_' + m.group(1).lower()] = m.group(4); continue
            m = re.match(r'RUN (\d+) (.*)', ln)
            if m:
                recs[int(m.group(1))]['run'] = m.group(2).strip(); continue
            m = re.match(r'EXCEPTION (\d+) (.*)', ln)
            if m:
                recs[int(m.group(1))]['exception'] = m.group(2)[:300]
        secs = [[] for _ in cfgs]
        if trace and os.path.exists(hl):
            cur = None
            for ln in open(hl):
                f = ln.split()
                if not f: continue
                if f[0] == 'M':
                    cur = int(f[1]) if int(f[1]) >= 0 else None; continue
                if cur is not None:
                    secs[cur].append(f)
        if rc != 0 and not any(recs):
            raise C.Inconclusive('C06 driver failed (rc=%s): %s' % (rc, (o + e)[-800:]))
        return recs, secs


def term_of(sec, key):
    """the key as a set of leaves (XOR cancels pairs): leaf = hashed byte string, or ('opaque', hash) for a hash value that
    no traced operation produced.  The trace is processed in order, each value gets the term of its FIRST definition (operands
    are always defined earlier, so there are no cycles).  Every X line is checked to be the XOR of its operands as logged --
    the only combination the model knows."""
    term = {}; defs = {}
    def t(h):
        return term[h] if h in term else frozenset([('opaque', h)])
    for f in sec:
        if f[0] == 'H':
            b = bytes.fromhex(f[2]) if len(f) > 2 else b''
            defs.setdefault(b, f[1])
            if defs[b] != f[1]:
                raise C.Inconclusive('occa::hash is not a function of the bytes (two values for one string)')
            term.setdefault(f[1], frozenset([b]))
        elif f[0] == 'X':
            if int(f[1], 16) != int(f[2], 16) ^ int(f[3], 16):
                raise C.Inconclusive('hash combination in the trace is not XOR: the key-term model does not apply')
            if f[1] not in term:
                term[f[1]] = t(f[2]) ^ t(f[3])
    if key not in term:
        raise C.Inconclusive('the cache key %s is not the result of any traced hash operation (hook or key computation changed)' % key)
    return {k: 1 for k in term[key]}, defs


def xor_of_leaves(leaves, defs):
    """recompute the key from the flattened term (validation of the flattening)"""
    acc = 0
    for k in leaves:
        acc ^= int(k[1], 16) if isinstance(k, tuple) else int(defs[k], 16)
    return '%064x' % acc


def marker_cfg(E):
    return {'defines': {'VALUE': 7, 'MK_DEFINES': 1}, 'includes': [E.inc], 'headers': ['#define MK_HEADERS 1'], 'functions': {'mk_fn': '00ff00ff'},
            'compiler': 'g++', 'compiler_flags': flagval('a'), 'compiler_linker_flags': flagval('b'), 'compiler_shared_flags': flagval('ab'),
            'compiler_env_script': 'true', 'compiler_language': 'cpp', 'okl': {'enabled': True, 'include_paths': ['/mk_okl_path']}}


def alt_value(E, p):
    return {'defines': {'VALUE': 8, 'MK_DEFINES': 1}, 'includes': [E.inc2], 'headers': ['#define MK_HEADERS 2'], 'functions': {'mk_fn': '11ff00ff'},
            'compiler': 'c++', 'compiler_flags': flagval('ba'), 'compiler_linker_flags': flagval('bb'), 'compiler_shared_flags': flagval('aa'),
            'compiler_env_script': 'true && true', 'compiler_language': 'c', 'okl': {'enabled': True, 'include_paths': ['/mk_okl_other']}}[p]


def occa_dump(E, v):
    """how occa's json prints the value (taken from the real library through the trace: the marker run hashes these dumps)"""
    return None


def templates(leaves, cfg):
    """for every string-valued property: the leaf that carries it, as (pre, post) around the value.  For structured
    properties: the leaf whose text contains every scalar of the value."""
    out = {}; used = set()
    for p in PROPS:
        v = cfg[p]
        needles = [v] if isinstance(v, str) else [str(x) for x in _scalars(v)]
        cands = []
        for k in leaves:
            if isinstance(k, tuple): continue
            try: t = k.decode('utf-8')
            except UnicodeDecodeError: continue
            if t == SRC: continue
            if all(n in t for n in needles):
                cands.append(t)
        if not cands:
            continue
        t = min(cands, key=len)
        if isinstance(v, str):
            i = t.index(v)
            out[p] = {'leaf': t, 'pre': t[:i], 'post': t[i + len(v):]}
        else:
            out[p] = {'leaf': t}
    return out


def _scalars(v):
    if isinstance(v, dict):
        for k, x in v.items():
            yield k
            for y in _scalars(x): yield y
    elif isinstance(v, list):
        for x in v:
            for y in _scalars(x): yield y
    elif isinstance(v, bool):
        return
    else:
        yield v


def predicted_equal(tmpl, const_leaves, cfgA, cfgB, props):
    """model prediction for a concrete pair that differs only in `props` (string properties with a template)"""
    def leaves(cfg):
        L = {}
        for c in const_leaves:
            L[c] = L.get(c, 0) ^ 1
        for p in props:
            s = tmpl[p]['pre'] + cfg[p] + tmpl[p]['post']
            L[s] = L.get(s, 0) ^ 1
        return {k for k, v in L.items() if v}
    return leaves(cfgA) == leaves(cfgB)


def smt(ctx, name, q, timeout=300):
    t0 = time.time()
    rc, o, e, s, _ = C.sh(['python3-vt', os.path.join(C.VERIF, 'harness/C06/smt.py')], timeout=timeout, stdin=json.dumps(q).encode())
    dt = time.time() - t0
    ctx.solver_s += dt
    try:
        r = json.loads(o)
    except Exception:
        return {'result': 'error', 'detail': (o + e)[-500:]}, dt
    if '(error' in o + e:
        return {'result': 'error', 'detail': (o + e)[-500:]}, dt
    return r, dt


def write_replay(ctx, slot, desc, mode, cfgA, cfgB, extra=None):
    d = os.path.join(C.REPLAY_DIR, 'C06_%d' % slot); os.makedirs(d, exist_ok=True)
    sdir = os.path.dirname(ctx.path('c06', 'x'))
    port = lambda c: json.loads(json.dumps(c).replace(sdir, '@SCRATCH@'))      # scratch paths (include files) are re-created at replay
    json.dump({'kind': 'mod', 'property': 'C06', 'mode': mode, 'A': port(cfgA), 'B': port(cfgB), 'desc': desc, **(extra or {})}, open(os.path.join(d, 'meta.json'), 'w'), indent=1)
    open(os.path.join(d, 'README.txt'), 'w').write('property C06: %s\nmode %s\nconfiguration A: %s\nconfiguration B: %s\nsource: the C06 kernel (props/C06.py SRC) unless meta.json has srcA/srcB\n'
                                                   'replay (rebuilds libocca from the current tree and computes both keys with it): %s/check C06 --replay %s\n'
                                                   % (desc, mode, jdump(cfgA), jdump(cfgB), C.VERIF, d))
    return d


def native_pair(E, mode, cfgA, cfgB, build=True, srcs=None, what='key'):
    """real library: keys of A and B; and, when both build, whether B built after A in one cache directory runs its own code"""
    recs, _ = E.run(mode, what, [cfgA, cfgB], trace=False, srcs=srcs)
    res = {'keyA': recs[0].get('key'), 'keyB': recs[1].get('key')}
    res['keys_equal'] = res['keyA'] is not None and res['keyA'] == res['keyB']
    if build:
        fa, _ = E.run(mode, 'build', [cfgA], trace=False, srcs=srcs and srcs[:1])
        fb, _ = E.run(mode, 'build', [cfgB], trace=False, srcs=srcs and srcs[1:])
        sh_, _ = E.run(mode, 'build', [cfgA, cfgB], trace=False, srcs=srcs)
        res.update(fresh_runA=fa[0].get('run') or fa[0].get('exception'), fresh_runB=fb[0].get('run') or fb[0].get('exception'),
                   shared_runA=sh_[0].get('run') or sh_[0].get('exception'), shared_runB=sh_[1].get('run') or sh_[1].get('exception'))
        res['B_ran_foreign_code'] = bool(fb[0].get('run') and sh_[1].get('run') and fb[0]['run'] != sh_[1]['run'])
    return res


def run(ctx):
    thorough = ctx.tier == 'thorough'
    ctx.level = 'model_checking'
    E = Env(ctx); E.build_driver()
    known = dict(C.load_known('C06'))
    slot = 0
    ctx.functions.update(['occa::device::setupKernelInfo', 'occa::device::kernelProperties', 'occa::serial::device::kernelHash', 'occa::openmp::device::kernelHash',
                          'occa::kernelHeaderHash', 'occa::hash_t::operator^', 'occa::hash(const void*, size_t)', 'occa::json::hash', 'occa::device::hash', 'occa::modeDevice_t::versionedHash'])
    ctx.units.update(['src/core/device.cpp', 'src/core/kernel.cpp', 'src/occa/internal/modes/serial/device.cpp', 'src/occa/internal/modes/openmp/device.cpp', 'src/utils/hash.cpp', 'src/types/json.cpp'])
    for mode in MODES:
        cfg = marker_cfg(E)
        # ---- extraction: two separate processes; same term, same key (identical builds in separate processes resolve alike)
        r1, s1 = E.run(mode, 'key', [cfg])
        r2, s2 = E.run(mode, 'key', [cfg], cache=os.path.join(E.dir, 'r%d' % (E.n), 'cache'))
        key = r1[0].get('key')
        if not key:
            raise C.Inconclusive('%s: key of the marker configuration could not be computed: %s' % (mode, r1))
        leaves, defs = term_of(s1[0], key)
        leaves2, _ = term_of(s2[0], r2[0]['key'])
        rec = {'query': '%s/term' % mode, 'desc': 'extract the key term of the marker configuration from the hooked library; flattened term must reproduce the real key; two processes agree',
               'status': 'pass', 'seconds': 0, 'witness': 'reached', 'properties': 3, 'leaves': len(leaves), 'trace_lines': len(s1[0])}
        if xor_of_leaves(leaves, defs) != key:
            raise C.Inconclusive('%s: flattened term does not reproduce the key' % mode)
        ctx.selftests += 1
        if key != r2[0]['key'] or set(leaves) != set(leaves2):
            rec['status'] = 'fail'
            slot += 1
            d = write_replay(ctx, slot, 'identical configuration, two processes, different keys', mode, cfg, cfg, {'two_process': True})
            ctx.violations.append(('%s: the same configuration gets different keys in two processes' % mode, d))
        ctx.queries.append(rec)
        text_leaves = sorted(k.decode('utf-8', 'replace') for k in leaves if not isinstance(k, tuple))
        opaque = [k[1] for k in leaves if isinstance(k, tuple)]
        if SRC.encode() not in leaves:
            slot += 1
            d = write_replay(ctx, slot, 'the kernel source text does not reach the key', mode, cfg, cfg, {'srcA': SRC, 'srcB': SRC.replace('+ i', '+ i + 1')})
            ctx.violations.append(('%s: source text is not a leaf of the key term' % mode, d))
        # the same source through a file (device::buildKernel hashes the file content with occa::hashFile)
        rf, sf = E.run(mode, 'keyfile', [cfg])
        recf = {'query': '%s/source-file' % mode, 'desc': 'source given as a file: the whole file content is a leaf of the key term, the key equals the key of the same text given as a string, and changing the last or a middle byte changes the real key',
                'seconds': 0, 'witness': 'reached', 'properties': 4, 'status': 'pass'}
        lf, _ = term_of(sf[0], rf[0]['key'])
        variants = [SRC + ' ', SRC.replace('100 * VALUE', '101 * VALUE'), SRC[:-2] + '\n}\n']
        rv, _ = E.run(mode, 'keyfile', [cfg] * len(variants), trace=False, srcs=variants)
        ctx.selftests += 1
        badv = [i for i, r in enumerate(rv) if r.get('key') == rf[0]['key']]
        if SRC.encode() not in lf or rf[0]['key'] != key or badv:
            recf['status'] = 'fail'
            slot += 1
            d = write_replay(ctx, slot, 'source files: content does not (fully) reach the key', mode, cfg, cfg, {'srcA': SRC, 'srcB': variants[badv[0]] if badv else SRC + ' ', 'fromfile': True})
            ctx.violations.append(('%s: kernel source given as a file: %s' % (mode, 'a changed file keeps the key' if badv else 'file content is not the hashed leaf / key differs from the string build'), d))
        ctx.queries.append(recf)
        tm = templates(leaves, cfg)
        ctx.extra.setdefault('key_terms', {})[mode] = {'leaves': [t[:120] for t in text_leaves], 'opaque_leaves': opaque,
                                                       'templates': {p: {k: v for k, v in t.items() if k != 'leaf'} or {'leaf': t['leaf'][:100]} for p, t in tm.items()}}
        # ---- coverage of every listed property: decided on the term, confirmed on the real library
        for p in PROPS:
            rec = {'query': '%s/covers/%s' % (mode, p), 'desc': 'the value of %s reaches the key term' % p, 'seconds': 0, 'witness': 'reached', 'properties': 1}
            cfgB = dict(cfg); cfgB[p] = alt_value(E, p)
            nat = native_pair(E, mode, cfg, cfgB, build=False)
            ctx.selftests += 1
            rec['native'] = nat
            in_term = p in tm
            if in_term == nat['keys_equal']:
                # the model (term) and the real library disagree about whether p matters
                if in_term:
                    rec['status'] = 'fail'       # in the term, yet the keys are equal: report via the real library
                else:
                    ctx.inconclusive.append('%s/covers/%s: property not found in the term but the real keys differ (marker matching too weak)' % (mode, p))
                    rec['status'] = 'inconclusive'; ctx.queries.append(rec); continue
            if not in_term or nat['keys_equal']:
                rec['status'] = 'fail'
                kkey = 'not-in-key:%s' % p
                if kkey in known:
                    ctx.known.append('key=%s %s' % (kkey, known[kkey])) if mode == MODES[0] else None
                    rec['known'] = kkey
                else:
                    slot += 1
                    d = write_replay(ctx, slot, 'configurations that differ only in %s get the same cache key' % p, mode, cfg, cfgB)
                    ctx.violations.append(('%s: %s does not reach the cache key (A and B differ only in it; keys equal on the real library)' % (mode, p), d))
            else:
                rec['status'] = 'pass'
            ctx.queries.append(rec)
        # ---- collisions that need no hash collision: SMT over the term
        strp = [p for p in PROPS if p in tm and 'pre' in tm[p]]
        const = [t for t in text_leaves if all(tm[p]['leaf'] != t for p in strp)]
        tok = {}
        def cname(t):
            # long constants (source text, dumps of structured properties) cannot equal a template instance (longer than any); name them
            if len(t) <= 60 and re.match(r'^[\x20-\x7e]*$', t):
                return t
            return tok.setdefault(t, '\x7fconst%d\x7f' % len(tok))
        maxinst = max([len(tm[p]['pre']) + len(BASEFLAG) + 4 + len(tm[p]['post']) for p in strp] + [0])
        for t in const:
            if len(t) > 60 and len(t) <= maxinst:
                raise C.Inconclusive('constant leaf could coincide with a template instance; tokenisation unsound')
        queries = [('flags', FLAGP, BASEFLAG, True)]
        if thorough:
            queries.append(('all-strings', [p for p in strp], '', False))
        else:
            queries.append(('flags+script', FLAGP + ['compiler_env_script'], '', False))
        for qn, vary, base, replayable in queries:
            vary = [p for p in vary if p in strp]
            if len(vary) < 2:
                continue
            lv = [{'kind': 'const', 'text': cname(t)} for t in const]
            lv += [{'kind': 'const', 'text': cname(o)} for o in ('\x7fopaque%s' % h for h in opaque)]
            fixed = [p for p in strp if p not in vary]
            lv += [{'kind': 'const', 'text': cname(tm[p]['leaf'])} for p in fixed]
            lv += [{'kind': 'prop', 'prop': p, 'pre': tm[p]['pre'] + base, 'post': tm[p]['post'], 'unset': ''} for p in vary]
            q = {'leaves': lv, 'props': vary, 'vary': vary, 'all_set': True, 'timeout_ms': 240000}
            r, dt = smt(ctx, qn, q)
            rec = {'query': '%s/collision/%s' % (mode, qn), 'seconds': round(dt, 2), 'backend': 'z3 (strings)', 'witness': 'reached', 'properties': len(lv) * 2 + 1,
                   'desc': 'two configurations differing in %s, values over {a,b}^<=2 %s, whose key terms are equal for every hash function' % (vary, '(as %s<n>)' % base if base else ''),
                   'result': r.get('result')}
            if r.get('result') == 'unsat':
                rec['status'] = 'pass'
            elif r.get('result') == 'sat':
                rec['status'] = 'fail'
                A = dict(cfg); B = dict(cfg)
                conv = (lambda w: flagval(w)) if base else (lambda w: w)
                for p in vary:
                    A[p] = conv(r['configs']['A'][p]); B[p] = conv(r['configs']['B'][p])
                rec['model'] = {'A': {p: A[p] for p in vary}, 'B': {p: B[p] for p in vary}}
                nat = native_pair(E, mode, A, B, build=replayable)
                rec['native'] = nat
                if not nat['keys_equal']:
                    ctx.inconclusive.append('%s: solver model did not reproduce on the real library (term extraction wrong?)' % rec['query'])
                    rec['status'] = 'inconclusive'
                else:
                    ctx.selftests += 1
                    slot += 1
                    d = write_replay(ctx, slot, 'different configurations, same cache key without any hash collision', mode, A, B, {'build': replayable})
                    ctx.violations.append(('%s: %s vs %s get the same cache key%s' % (mode, rec['model']['A'], rec['model']['B'],
                                                                                     '; B then runs code compiled for A' if nat.get('B_ran_foreign_code') else ''), d))
            else:
                rec['status'] = 'inconclusive'
                ctx.inconclusive.append('%s: solver answered %s %s' % (rec['query'], r.get('result'), r.get('detail', '')))
            ctx.queries.append(rec)
        # ---- collisions of the REAL hash inside the flag domain: the hash values are taken from the real library (hook trace),
        # the choice of values is the solver's.  (occa::hash is h = h*p ^ c per lane: values that differ in their last byte give
        # linearly related hashes unless further bytes follow, so this domain - values differing in the last character - is the
        # adversarial one.)
        fl = [p for p in FLAGP + ['compiler_env_script'] if p in strp]
        if len(fl) >= 2:
            doms = [('last-char', WORDS, flagval), ('mid-char', WORDS, lambda w: '-DM' + str(1 + WORDS.index(w)) + '=0 ' + BASEFLAG + '1')]
            for dn, words, conv in (doms if thorough else doms[:1]):
                cfgs = []
                for w in words:
                    c = dict(cfg)
                    for p in fl: c[p] = conv(w)
                    cfgs.append(c)
                rr, ss = E.run(mode, 'key', cfgs)
                hv = {p: [] for p in fl}; ok = True
                for i, w in enumerate(words):
                    _, dd = term_of(ss[i], rr[i]['key'])
                    for p in fl:
                        t = (tm[p]['pre'] + conv(w) + tm[p]['post']).encode()
                        if t not in dd: ok = False
                        else: hv[p].append(dd[t])
                rec = {'query': '%s/real-hash/%s' % (mode, dn), 'backend': 'z3 (bit-vectors)', 'witness': 'reached', 'properties': 1,
                       'desc': 'hash values of the %d x %d leaves computed by the real library; two different value assignments to %s whose keys are equal' % (len(fl), len(words), fl)}
                if not ok:
                    rec['status'] = 'inconclusive'; ctx.inconclusive.append('%s: a template instance was not hashed by the library (term shape differs between configurations)' % rec['query'])
                    ctx.queries.append(rec); continue
                t0 = time.time()
                rc, o, e, s_, _ = C.sh(['python3-vt', os.path.join(C.VERIF, 'harness/C06/smt_real.py')], timeout=300, stdin=json.dumps({'props': fl, 'values': len(words), 'h': hv}).encode())
                rec['seconds'] = round(time.time() - t0, 2); ctx.solver_s += time.time() - t0
                try: r = json.loads(o)
                except Exception: r = {'result': 'error', 'detail': (o + e)[-300:]}
                rec['result'] = r.get('result')
                if r.get('result') == 'unsat':
                    rec['status'] = 'pass'
                elif r.get('result') == 'sat':
                    A = dict(cfg); B = dict(cfg)
                    for p in fl:
                        A[p] = conv(words[r['A'][p]]); B[p] = conv(words[r['B'][p]])
                    rec['model'] = {'A': {p: A[p] for p in fl}, 'B': {p: B[p] for p in fl}}
                    nat = native_pair(E, mode, A, B, build=False)
                    rec['native'] = nat
                    if nat['keys_equal']:
                        rec['status'] = 'fail'; ctx.selftests += 1; slot += 1
                        d = write_replay(ctx, slot, 'different configurations, same cache key (collision of the real hash inside the value domain)', mode, A, B)
                        ctx.violations.append(('%s: %s vs %s get the same cache key' % (mode, rec['model']['A'], rec['model']['B']), d))
                    else:
                        rec['status'] = 'inconclusive'; ctx.inconclusive.append('%s: solver model did not reproduce on the real library' % rec['query'])
                else:
                    rec['status'] = 'inconclusive'; ctx.inconclusive.append('%s: solver answered %s %s' % (rec['query'], r.get('result'), r.get('detail', '')))
                ctx.queries.append(rec)
        # ---- encoder validation: predicted vs real key equality on concrete pairs (including coinciding values)
        pairs = []
        fl = [p for p in FLAGP if p in strp]
        if len(fl) >= 2:
            ws = ['a', 'b', 'ab']
            for i, (x, y) in enumerate([(0, 0), (0, 1), (1, 0), (1, 1), (2, 2), (0, 2)]):
                A = dict(cfg); B = dict(cfg)
                A[fl[0]] = flagval(ws[x]); A[fl[1]] = flagval(ws[y])
                B[fl[0]] = flagval(ws[y]); B[fl[1]] = flagval(ws[(x + i) % 3])
                pairs.append((A, B))
        agree = 0
        for A, B in pairs[: (6 if thorough else 4)]:
            pe = predicted_equal(tm, [t for t in const] + [tm[p]['leaf'] for p in strp if p not in fl], A, B, fl) if A != B else True
            nat = native_pair(E, mode, A, B, build=False)
            if pe != nat['keys_equal']:
                ctx.inconclusive.append('%s: term model and real library disagree on a concrete pair (%s vs %s): predicted %s, real %s' % (mode, {p: A[p] for p in fl}, {p: B[p] for p in fl}, pe, nat['keys_equal']))
            else:
                agree += 1; ctx.selftests += 1
        ctx.extra.setdefault('model_vs_library_pairs', {})[mode] = agree
    ctx.samples = [{'mode': m, 'key term (XOR of hashes of these strings)': t['leaves'][:14]} for m, t in ctx.extra['key_terms'].items()][:2] + \
                  [{k: r.get(k) for k in ('query', 'desc', 'status', 'result', 'model')} for r in ctx.queries if 'collision' in r['query']][:3]
    ctx.bounds = {'term': 'the XOR tree that the real library evaluates for one marker configuration (all eleven listed properties set) on Serial and OpenMP; assumed to have the same shape for every configuration (validated on concrete pairs)',
                  'values': 'SMT: every varied property set, value in {a,b}^<=2 (7 values; for the flag query instantiated as "%s<n>"), values may coincide across properties' % BASEFLAG,
                  'varied properties': 'quick: compiler_flags, compiler_linker_flags, compiler_shared_flags (+ compiler_env_script); thorough: every string-valued listed property that reaches the term',
                  'coverage': 'each of the eleven listed properties and the source text: present in the term and changing it changes the real key',
                  'outside': 'collisions of the 256-bit hash itself (the solver quantifies over all hash functions: equality for EVERY H); unset properties and environment-variable fallbacks; structured values (defines/includes/headers/functions/okl) beyond presence in the term; the dependency re-hash (applyDependencyHash) of already-cached kernels; modes other than Serial/OpenMP'}
    ctx.assumptions += ['the hook (LIBOCCA_OCCA_VERIF, src/utils/hash.cpp) logs every occa::hash(ptr,bytes) and every hash_t::operator^; each X line is checked to be the XOR of its operands',
                        'the process environment is fixed: compiler/flag environment variables are removed for the driver',
                        'equality of XOR-of-hash terms for every H <=> every string occurs an even number of times among the leaves of both terms (free XOR algebra)']
    ctx.models.update(['z3 string theory; InRe((a|b){0,2}) value domain', 'harness/C06/driver.cpp (calls device::setupKernelInfo / buildKernelFromString of the real library)'])
    return C.finish(ctx, rule='one evaluation = one decision on the extracted key term: a z3 query (collision/*), a term-membership decision confirmed on the real library (covers/*), or the extraction itself (term); non-trivial = decided (pass or fail with native confirmation)')


def replay_dir(ctx, d):
    E = Env(ctx); E.build_driver()
    meta = json.loads(open(os.path.join(d, 'meta.json')).read().replace('@SCRATCH@', E.dir))
    srcs = [meta.get('srcA'), meta.get('srcB')] if meta.get('srcA') else None
    if meta.get('two_process'):
        r1, _ = E.run(meta['mode'], 'key', [meta['A']], trace=False); r2, _ = E.run(meta['mode'], 'key', [meta['B']], trace=False)
        bad = r1[0].get('key') != r2[0].get('key')
        print('keys: %s %s' % (r1[0].get('key'), r2[0].get('key')))
    else:
        nat = native_pair(E, meta['mode'], meta['A'], meta['B'], build=bool(meta.get('build')), srcs=srcs, what='keyfile' if meta.get('fromfile') else 'key')
        print(json.dumps(nat, indent=1))
        bad = nat['keys_equal']
    print('replay rc=%d (%s)' % (1 if bad else 0, 'reproduced: two different configurations share one cache key' if bad else 'not reproduced'))
    return 1 if bad else 0
