"""C10 kernel argument validation: the cast-compatibility rule (E1, partial: see outside)."""
import os, re
from vlib import common as C
from vlib.common import Query
H = os.path.join(C.VERIF, 'harness', 'C10')
ROOTS = ['d_cast', 'd_cyclic']


def relift(ctx):
    return C.lift(ctx, 'C10', os.path.join(H, 'wrap.cpp'), ROOTS, libocca=True)


def run(ctx):
    thorough = ctx.tier == 'thorough'
    L = relift(ctx)
    known = dict(C.load_known('C10'))
    hs = os.path.join(H, 'h_cast.c')
    NM = 4 if thorough else 3
    qs = [Query('cast-rule', L, hs, ['NMAX=%d' % NM], unwind=NM + 3, timeout=1800 if thorough else 400, backend='cadical',
                desc='canBeCastedTo on flattened vectors of lengths 0..%d over 3 leaf dtypes: reference rule, symmetry, no crash' % NM),
          Query('cast-rule-nonempty', L, hs, ['NMAX=%d' % NM, 'NONEMPTY'], unwind=NM + 3, timeout=1800 if thorough else 400, backend='cadical',
                desc='the same with both flattened vectors non-empty')]
    for q in qs:
        q.no_ptr_overflow = True
    if ctx.only:
        qs = [q for q in qs if re.search(ctx.only, q.name)]
    C.selftest(ctx, L, hs, ['NMAX=%d' % NM, 'NONEMPTY'], [dict(nf=1, nt=2, f=[0, 0, 0, 0], t=[0, 0, 0, 0]), dict(nf=2, nt=4, f=[0, 1, 0, 0], t=[0, 1, 0, 2]), dict(nf=3, nt=3, f=[0, 1, 2, 0], t=[0, 1, 2, 0])], 'cast')
    C.run_queries(ctx, qs)
    ctx.bounds = {'flattened dtypes': 'every pair of flattened dtype vectors of lengths 0..%d over three distinct leaf dtypes' % NM,
                  'outside': 'extraction of argument metadata by the parser and the fresh-vs-cached clause (parser + build.json I/O); modeKernel_t::setupRun itself (needs a kernel object with occa::json properties); flattening of struct/tuple/union trees (setFlattenedDtype recursion over heap objects); the byte wildcard (identity of the global occa::dtype::byte)'}
    ctx.assumptions += ['private members of dtype_t are opened in the wrapper TU to set flatDtype directly', 'operator new never fails']
    return C.finish(ctx)
