/* ==, != are complementary and agree with word equality; ^ is word-wise xor; < is a strict order */
#include "vharness.h"
#include "C27_roots.h"
int main(void) {
  IN_ARR(int, a, 8);
  IN_ARR(int, b, 8);
  int x[8];
  for (int i = 0; i < 8; i++) x[i] = 0;
  int r = v_ops((char*) a, (char*) b, (char*) x);
  OUT(r, r);
  VASSERT(r != -1, "no exception");
  int eq = 1;
  for (int i = 0; i < 8; i++) { if (a[i] != b[i]) eq = 0; VASSERT(x[i] == (a[i] ^ b[i]), "xor is word-wise"); }
  VASSERT(((r & 1) != 0) == eq, "== is word equality");
  VASSERT(((r & 2) != 0) == !eq, "!= is the complement of ==");
  VASSERT(!((r & 4) && (r & 8)), "< is antisymmetric");
  VASSERT(eq == !((r & 4) || (r & 8)), "exactly one of a<b, b<a, a==b");
  VREACH();
  return 0;
}
