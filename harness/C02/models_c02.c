/* C02: the buffer double never asks to be freed (vbuf::needsFree() is false), so its destructors are unreachable; these
 * bodies make that an obligation and cut the ~modeMemory_t <-> ~modeBuffer_t mutual recursion out of the encoding. */
void _ZN4vbufD0Ev(char* p) { __CPROVER_assert(0, "the buffer double is never destroyed"); }
void _ZN4vbufD2Ev(char* p) { __CPROVER_assert(0, "the buffer double is never destroyed"); }
void _ZN4vbufD1Ev(char* p) { __CPROVER_assert(0, "the buffer double is never destroyed"); }
void _ZN4occa12modeBuffer_tD2Ev(char* p) { __CPROVER_assert(0, "the buffer double is never destroyed"); }
void _ZN4occa12modeBuffer_tD0Ev(char* p) { __CPROVER_assert(0, "the buffer double is never destroyed"); }
