// C01 wrappers: the real occa::memory handle code (src/core/memory.cpp), modeMemory_t's reference ring
// (src/occa/internal/core/memory.cpp) and gc::ring_t / ringEntry_t, with a minimal concrete modeMemory_t subclass that
// counts destructions.  The buffer layer is cut: after construction the object's modeBuffer is NULL, which is the state
// modeMemory_t::removeModeMemoryRef treats as "nothing to release".
#include "core/memory.cpp"
#include "occa/internal/core/memory.cpp"
#include "occa/internal/core/buffer.cpp"   // defines modeBuffer_t's vtable/typeinfo so that virtual calls on a modeBuffer_t* have no candidate among the handle-layer classes
#include "occa/internal/utils/gc.cpp"
#include "errstub.hpp"
#include <cstring>
#include <new>
#define VX extern "C" __attribute__((noinline))
using occa::memory;

static int g_dtor[2];
struct vmem : public occa::modeMemory_t {
  int id;
  vmem(occa::modeBuffer_t *b, int id_) : occa::modeMemory_t(b, 8, 0), id(id_) {}
  ~vmem() { g_dtor[id]++; }
  void* getKernelArgPtr() const { return 0; }
  void copyTo(void *, const occa::udim_t, const occa::udim_t, const occa::json &) const {}
  void copyFrom(const void *, const occa::udim_t, const occa::udim_t, const occa::json &) {}
  void copyFrom(const occa::modeMemory_t *, const occa::udim_t, const occa::udim_t, const occa::udim_t, const occa::json &) {}
  void* unwrap() { return 0; }
};
struct vbuf : public occa::modeBuffer_t {
  vbuf(occa::modeDevice_t *d) : occa::modeBuffer_t(d, 8, occa::json()) {}
  occa::modeMemory_t* slice(const occa::dim_t, const occa::udim_t) { return 0; }
  void* unwrap() { return 0; }
};
#define NH 3
static vmem *g_obj[2];
// handle variables live in typed heap objects (char-array storage would make every access a byte-level extract for CBMC)
static memory *g_h[NH];
static memory& H(int i) { return *g_h[i]; }

// two backend objects; NH default-constructed (empty) handles
VX void c_setup(void) {
  // a real (minimal) modeBuffer_t subclass for the constructor of modeMemory_t; its device is zeroed raw storage, of which
  // modeBuffer_t's constructor only touches the (non-virtual) memory ring
  struct fakedev_t { alignas(occa::modeDevice_t) char b[sizeof(occa::modeDevice_t)]; };
  static fakedev_t fd;
  memset(fd.b, 0, sizeof(fd.b));
  static vbuf *fakebuf = new vbuf(reinterpret_cast<occa::modeDevice_t*>(fd.b));
  for (int k = 0; k < 2; k++) {
    g_dtor[k] = 0;
    g_obj[k] = new vmem(fakebuf, k);
    g_obj[k]->modeBuffer = NULL;     // buffer layer cut (see header comment)
  }
  // the constructor linked both objects into the fake buffer's ring: unlink them
  g_obj[0]->occa::gc::ringEntry_t::removeRef(); g_obj[1]->occa::gc::ringEntry_t::removeRef();
  for (int i = 0; i < NH; i++) g_h[i] = new memory();
}
VX void c_attach(int i, int k) { H(i) = memory(g_obj[k]); }      // handle i refers to object k (through the real constructor + assignment)
VX void c_assign(int i, int j) { H(i) = H(j); }
VX void c_copyconstruct(int i, int j) { H(i).~memory(); new (g_h[i]) memory(H(j)); }
VX void c_destroy(int i) { H(i).~memory(); new (g_h[i]) memory(); }   // scope exit of handle i, then the slot is reused by a fresh empty handle
VX void c_swap(int i, int j) { H(i).swap(H(j)); }
VX void c_free(int i) { H(i).free(); }
VX void c_dontuserefs(int i) { H(i).dontUseRefs(); }
// observations
VX int c_target(int i) { occa::modeMemory_t *m = H(i).getModeMemory(); return m == NULL ? 0 : (m == g_obj[0] ? 1 : (m == g_obj[1] ? 2 : 3)); }
VX int c_initialized(int i) { return H(i).isInitialized() ? 1 : 0; }
VX int c_dtor(int k) { return g_dtor[k]; }
// is handle i linked in object k's ring (object must be alive); walks at most NH + 1 entries
VX int c_inring(int k, int i) {
  occa::gc::ringEntry_t *head = g_obj[k]->memoryRing.head;
  if (!head) return 0;
  occa::gc::ringEntry_t *p = head;
  for (int n = 0; n <= NH; n++) {
    if (p == static_cast<occa::gc::ringEntry_t*>(&H(i))) return 1;
    p = p->rightRingEntry;
    if (p == head) return 0;
  }
  return -1;      // not a ring of at most NH entries
}
VX int c_ringlen(int k) {
  occa::gc::ringEntry_t *head = g_obj[k]->memoryRing.head;
  if (!head) return 0;
  occa::gc::ringEntry_t *p = head->rightRingEntry; int n = 1;
  while (p != head && n <= NH + 1) { if (p->leftRingEntry->rightRingEntry != p) return -2; p = p->rightRingEntry; n++; }
  return n;
}
VX int c_selflinked(int i) { occa::gc::ringEntry_t *e = &H(i); return (e->leftRingEntry == e && e->rightRingEntry == e) ? 1 : 0; }
