// C14 short circuit: the real ternaryOpNode::evaluate with leaf doubles that record whether they were evaluated
#include "occa/internal/lang/expr/ternaryOpNode.cpp"
#include "occa/internal/lang/expr/exprOpNode.cpp"
#include "occa/internal/lang/expr/exprNode.cpp"
#include "types/primitive.cpp"
#include "errstub.hpp"
#define VX extern "C" __attribute__((noinline))
using namespace occa::lang;
static int g_eval[3];
struct vleaf : public exprNode {
  int id; long v;
  vleaf(int id_, long v_) : exprNode(NULL), id(id_), v(v_) {}
  occa::udim_t type() const { return exprNodeType::primitive; }
  exprNode* clone() const { return new vleaf(id, v); }
  bool canEvaluate() const { return true; }
  occa::primitive evaluate() const { g_eval[id]++; return occa::primitive((int64_t) v); }
  void print(printer &) const {}
  void debugPrint(const std::string &) const {}
};
// evaluates  c ? t : f ; out[0..2] = how often each operand was evaluated; returns the value
VX long s_ternary(long c, long t, long f, int *out) {
  g_eval[0] = g_eval[1] = g_eval[2] = 0;
  // heap objects that are never destroyed: the destructors (virtual `delete token`, recursive deletes) are not the subject
  vleaf *lc = new vleaf(0, c), *lt = new vleaf(1, t), *lf = new vleaf(2, f);
  ternaryOpNode *n = new ternaryOpNode(*lc, *lt, *lf);
  occa::primitive r = n->evaluate();
  out[0] = g_eval[0]; out[1] = g_eval[1]; out[2] = g_eval[2];
  return (long) r.to<int64_t>();
}
