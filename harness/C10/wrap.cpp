// C10 wrappers: the real dtype cast-compatibility rule on flattened dtype vectors of symbolic shape.
// (private members are opened so that the flattened vectors can be set directly: building struct/tuple trees goes through
//  heap-allocated dtypeStruct_t/dtypeTuple_t objects whose shapes the solver cannot usefully vary)
#include <string>
#include <vector>
#include <map>
#include <iostream>
#include <sstream>
#define private public
#define protected public
#include "dtype/dtype.cpp"
#undef private
#undef protected
#include "errstub.hpp"
#define VX extern "C" __attribute__((noinline))
using occa::dtype_t;
// from/to are fresh unregistered dtypes whose flattened vectors hold pointers to three distinct leaf dtypes
VX int d_cast(int nf, const int *fsel, int nt, const int *tsel) {
  try {
    dtype_t leaf0("l0", 4), leaf1("l1", 4), leaf2("l2", 8);
    const dtype_t *leaves[3] = {&leaf0, &leaf1, &leaf2};
    dtype_t from("from", 0), to("to", 0);
    // a dtype whose flattened form is empty behaves like an empty struct: give it a struct marker so that it is not its own leaf
    from.flatDtype.reserve(8); to.flatDtype.reserve(8);      // one allocation each: vector growth is not the subject
    for (int i = 0; i < nf; i++) from.flatDtype.push_back(leaves[fsel[i]]);
    for (int i = 0; i < nt; i++) to.flatDtype.push_back(leaves[tsel[i]]);
    if (nf == 0) from.struct_ = new occa::dtypeStruct_t();
    if (nt == 0) to.struct_ = new occa::dtypeStruct_t();
    return from.canBeCastedTo(to) ? 1 : 0;
  } catch (...) { return -1; }
}
VX int d_cyclic(int n, const int *sel, int cycle) {
  try {
    dtype_t leaf0("l0", 4), leaf1("l1", 4), leaf2("l2", 8);
    const dtype_t *leaves[3] = {&leaf0, &leaf1, &leaf2};
    occa::dtypeVector_t v; v.reserve(8);
    for (int i = 0; i < n; i++) v.push_back(leaves[sel[i]]);
    return dtype_t::isCyclic(v, cycle) ? 1 : 0;
  } catch (...) { return -1; }
}
