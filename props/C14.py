"""C14 constant folding computes what C++ computes (E1: real occa::primitive operators lifted from clang IR -> CBMC).
For one operator application on operands of symbolic type tags and symbolic full-width values, the value bits and the
type of occa's result must equal what C computes natively for the same operand types (CBMC's own C semantics is the
oracle; C and C++ agree on promotion, usual arithmetic conversions and these operators; comparison/logical results are
bool in C++).  Only applications whose C++ result is defined are required to agree."""
import os, re
from vlib import common as C
from vlib.common import Query

H = os.path.join(C.VERIF, 'harness', 'C14')
# tag index = log2(primitiveType); the literal-reachable types (integer literals are never narrower than int)
TYPES = {1: '_Bool', 6: 'int', 7: 'unsigned int', 8: 'long', 9: 'unsigned long', 10: 'float', 11: 'double'}
RANK = {1: 0, 6: 1, 7: 1, 8: 2, 9: 2}
SIGNED = {1: False, 6: True, 7: False, 8: True, 9: False}
BITS = {1: 1, 6: 32, 7: 32, 8: 64, 9: 64, 10: 32, 11: 64}
BIN = [('add', '+', 'arith'), ('sub', '-', 'arith'), ('mult', '*', 'arith'), ('div', '/', 'div'), ('mod', '%', 'mod'),
       ('bitAnd', '&', 'bit'), ('bitOr', '|', 'bit'), ('xor', '^', 'bit'), ('leftShift', '<<', 'shl'), ('rightShift', '>>', 'shr'),
       ('lessThan', '<', 'cmp'), ('lessThanEq', '<=', 'cmp'), ('greaterThan', '>', 'cmp'), ('greaterThanEq', '>=', 'cmp'),
       ('equal', '==', 'cmp'), ('notEqual', '!=', 'cmp'), ('and', '&&', 'logic'), ('or', '||', 'logic')]
UNA = [('not', '!', 'logic'), ('positive', '+', 'arith'), ('negative', '-', 'neg'), ('tilde', '~', 'bit')]
ROOTS = ['v_' + n for n, _, _ in BIN + UNA]


def promote(t):
    return 6 if t == 1 else t


def common_type(a, b):
    if 11 in (a, b): return 11
    if 10 in (a, b): return 10
    a, b = promote(a), promote(b)
    if a == b: return a
    if RANK[a] == RANK[b]:
        return a if not SIGNED[a] else b          # same rank: the unsigned one
    hi, lo = (a, b) if RANK[a] > RANK[b] else (b, a)
    return hi                                     # LP64: long holds every unsigned int


MINMAX = {6: ('(-2147483647 - 1)', '2147483647'), 8: ('(-9223372036854775807L - 1)', '9223372036854775807L')}

LOADERS = '''
static _Bool ld_1(unsigned long b) { return (_Bool) (b & 1); }
static int ld_6(unsigned long b) { return (int) (unsigned int) b; }
static unsigned int ld_7(unsigned long b) { return (unsigned int) b; }
static long ld_8(unsigned long b) { return (long) b; }
static unsigned long ld_9(unsigned long b) { return b; }
static float ld_10(unsigned long b) { union { unsigned int u; float f; } x; x.u = (unsigned int) b; return x.f; }
static double ld_11(unsigned long b) { union { unsigned long u; double f; } x; x.u = b; return x.f; }
static unsigned long bits_1(_Bool v) { return v ? 1 : 0; }
static unsigned long bits_6(int v) { return (unsigned int) v; }
static unsigned long bits_7(unsigned int v) { return v; }
static unsigned long bits_8(long v) { return (unsigned long) v; }
static unsigned long bits_9(unsigned long v) { return v; }
static unsigned long bits_10(float v) { union { unsigned int u; float f; } x; x.f = v; return x.u; }
static unsigned long bits_11(double v) { union { unsigned long u; double f; } x; x.f = v; return x.u; }
#define TAGOF(r) _Generic((r), _Bool: 1, int: 6, unsigned int: 7, long: 8, unsigned long: 9, float: 10, double: 11, default: 0)
#define BITSOF(r) _Generic((r), _Bool: bits_1, int: bits_6, unsigned int: bits_7, long: bits_8, unsigned long: bits_9, float: bits_10, double: bits_11)(r)
static int isnan32(unsigned long b) { return (b & 0x7f800000u) == 0x7f800000u && (b & 0x7fffffu) != 0; }
static int isnan64(unsigned long b) { return (b & 0x7ff0000000000000ul) == 0x7ff0000000000000ul && (b & 0xffffffffffffful) != 0; }
'''


def pre_binary(kind, sym, ta, tb):
    """assumptions that make the C++ result defined; '' when always defined; None when C++ rejects the operand types"""
    isf = ta in (10, 11) or tb in (10, 11)
    if kind in ('mod', 'bit', 'shl', 'shr') and isf:
        return None
    if kind in ('cmp', 'logic'):
        return ''
    if kind == 'bit':
        return ''
    if kind in ('shl', 'shr'):
        lt = promote(ta)
        w = BITS[lt]
        s = 'VASSUME((long) y >= 0 && (unsigned long) y < %d);' % w if SIGNED.get(promote(tb), False) or tb == 1 else 'VASSUME((unsigned long) y < %d);' % w
        if kind == 'shl' and SIGNED[lt]:
            s += ' VASSUME(x >= 0 && (%s) x <= (%s >> y));' % (TYPES[lt], MINMAX[lt][1])
        return s
    ct = common_type(ta, tb)
    if ct in (10, 11):
        return ''
    T = TYPES[ct]
    s = '%s xx = (%s) x, yy = (%s) y; ' % (T, T, T)
    if kind == 'arith':
        if SIGNED[ct]:
            fn = {'+': 'plus', '-': 'minus', '*': 'mult'}[sym]
            s += 'VASSUME(!__CPROVER_overflow_%s(xx, yy));' % fn
        return s
    if kind in ('div', 'mod'):
        s += 'VASSUME(yy != 0);'
        if SIGNED[ct]:
            s += ' VASSUME(!(xx == %s && yy == -1));' % MINMAX[ct][0]
        return s
    return ''


def gen_binop(name, sym, kind, pairs, vmode='full'):
    a = ['/* generated by props/C14.py: operator %s (%s) */' % (name, sym), '#include "vharness.h"', '#include "C14_roots.h"', LOADERS, 'int main(void) {',
         '  IN(int, ta); IN(int, tb); IN(unsigned long, a); IN(unsigned long, b);',
         '  VASSUME(ta >= 0 && ta < 16 && tb >= 0 && tb < 16);', '  int rt = -9; unsigned long rb = 0; int cpp_rejects = 0;', '  switch (ta * 16 + tb) {']
    for (ta, tb) in pairs:
        pre = pre_binary(kind, sym, ta, tb)
        a.append('  case %d: { %s x = ld_%d(a); %s y = ld_%d(b);' % (ta * 16 + tb, TYPES[ta], ta, TYPES[tb], tb))
        if pre is None:
            a.append('    cpp_rejects = 1; break; }')
            continue
        if ta in (10, 11): a.append('    VASSUME(!isnan%d(a));' % BITS[ta])
        if tb in (10, 11): a.append('    VASSUME(!isnan%d(b));' % BITS[tb])
        if vmode == 'small':
            a.append('    VASSUME(x >= 0 && x <= %d && y >= 0 && y <= %d);   /* stated bound: multiplier/divider equivalence on full-width symbolic operands is SAT-hard */' % ((15, 15) if sym == '*' else (63, 63)))
        if vmode != 'full' and kind == 'arith':
            pre = ''      # type-only: the type does not depend on the values; small: operands in 0..63 cannot overflow
        a.append('    ' + pre)
        if kind in ('cmp', 'logic'):
            a.append('    rt = 1; rb = (x %s y) ? 1 : 0; break; }' % sym)
        else:
            if vmode == 'type_only':
                a.append('    __typeof__(x %s y) r = 0; rt = TAGOF(r); break; }' % sym)     # the operands are not evaluated: only the C type is taken
            else:
                a.append('    __typeof__(x %s y) r = x %s y; rt = TAGOF(r); rb = BITSOF(r); break; }' % (sym, sym))
    a.append('  default: VASSUME(0);')
    a.append('  }')
    a.append('  unsigned long ob = 0;')
    a.append('  int ot = v_%s(ta, a, tb, b, (char *) &ob);' % name)
    a.append('  OUT(ot, ot); OUT(rt, rt); OUT(ob, ob); OUT(rb, rb);')
    a.append('  if (cpp_rejects) { VASSERT(ot == -1, "operand types C++ rejects for this operator are reported as an error"); }')
    a.append('  else {')
    a.append('    VASSERT(ot != -1, "occa evaluates an application that is defined in C++ (no error raised)");')
    a.append('    VASSERT(ot == rt, "result type (signedness and width) equals the C++ result type");')
    if vmode == 'type_only':
        a.append('    /* value equality is decided by the small-operand query of this operator */')
    else:
        a.append('    if (ot == rt) { if (rt == 10 && isnan32(rb)) { VASSERT(isnan32(ob), "NaN result"); } else if (rt == 11 && isnan64(rb)) { VASSERT(isnan64(ob), "NaN result"); } else { VASSERT(ob == rb, "result value equals the C++ result"); } }')
    a.append('  }')
    a += ['  VREACH();', '  return 0;', '}']
    return '\n'.join(a)


def gen_unop(name, sym, kind, types):
    a = ['/* generated by props/C14.py: unary operator %s (%s) */' % (name, sym), '#include "vharness.h"', '#include "C14_roots.h"', LOADERS, 'int main(void) {',
         '  IN(int, ta); IN(unsigned long, a);', '  VASSUME(ta >= 0 && ta < 16);', '  int rt = -9; unsigned long rb = 0; int cpp_rejects = 0;', '  switch (ta) {']
    for ta in types:
        a.append('  case %d: { %s x = ld_%d(a);' % (ta, TYPES[ta], ta))
        if kind == 'bit' and ta in (10, 11):
            a.append('    cpp_rejects = 1; break; }'); continue
        if ta in (10, 11): a.append('    VASSUME(!isnan%d(a));' % BITS[ta])
        if kind == 'neg' and SIGNED.get(promote(ta), False) and ta != 1:
            a.append('    VASSUME(x != %s);' % MINMAX[ta][0])
        if kind == 'logic':
            a.append('    rt = 1; rb = (!x) ? 1 : 0; break; }')
        else:
            a.append('    __typeof__(%sx) r = %sx; rt = TAGOF(r); rb = BITSOF(r); break; }' % (sym, sym))
    a.append('  default: VASSUME(0);')
    a.append('  }')
    a.append('  unsigned long ob = 0;')
    a.append('  int ot = v_%s(ta, a, (char *) &ob);' % name)
    a.append('  OUT(ot, ot); OUT(rt, rt); OUT(ob, ob); OUT(rb, rb);')
    a.append('  if (cpp_rejects) { VASSERT(ot == -1, "operand types C++ rejects for this operator are reported as an error"); }')
    a.append('  else {')
    a.append('    VASSERT(ot != -1, "occa evaluates an application that is defined in C++ (no error raised)");')
    a.append('    VASSERT(ot == rt, "result type (signedness and width) equals the C++ result type");')
    a.append('    if (ot == rt) { VASSERT(ob == rb, "result value equals the C++ result"); }')
    a.append('  }')
    a += ['  VREACH();', '  return 0;', '}']
    return '\n'.join(a)


INT = [1, 6, 7, 8, 9]
FLT = [10, 11]


def finding_class(name, ta, tb=None):
    """key of the listed finding an operand-type combination belongs to (see known_findings.txt), or None"""
    if name in ('bitAnd', 'bitOr', 'xor') and ta == 1 and tb == 1:
        return 'bool-bitops'
    if name in ('leftShift', 'rightShift') and ta in INT and tb in INT:
        occa_t = 6 if max(ta, tb) == 1 else max(ta, tb)
        if occa_t != promote(ta):
            return 'shift-result-type'
    if name in ('and', 'or') and (ta in FLT or tb in FLT):
        return 'logical-float'
    if name == 'not' and ta in FLT:
        return 'logical-float'
    if name == 'tilde' and ta == 1:
        return 'tilde-bool'
    return None


def run(ctx):
    thorough = ctx.tier == 'thorough'
    L = C.lift(ctx, 'C14', os.path.join(H, 'wrap.cpp'), ROOTS, ub=False, libocca=True)
    known = dict(C.load_known('C14'))
    qs = []
    gdir = L.dir
    def add(name, text, desc, timeout=900, backend=None, defines=()):
        hp = os.path.join(gdir, 'h_%s.c' % name)
        open(hp, 'w').write(text)
        qs.append(Query(name, L, hp, list(defines), unwind=15, timeout=timeout, desc=desc, backend=backend))
    recon = {}
    def split(name, pairs):
        keep = []
        for pr in pairs:
            k = finding_class(name, *pr)
            if k and k in known:
                recon.setdefault(k, (name, pr))
            else:
                keep.append(pr)
        return keep
    for (name, sym, kind) in BIN:
        ipairs = split(name, [(a, b) for a in INT for b in INT])
        fpairs = split(name, [(a, b) for a in INT + FLT for b in INT + FLT if a in FLT or b in FLT])
        heavy = kind in ('div', 'mod') or name == 'mult'
        if heavy:
            # multiply/divide: the result TYPE (and 'no error') is decided for all operand values; the result VALUE for
            # operands in 0..63 (equivalence of two full-width multiplier/divider circuits is SAT-hard on every back end here)
            add('%s_int_type' % name, gen_binop(name, sym, kind, ipairs, 'type_only'), 'operator %s: result type and definedness on all 25 integer operand-type pairs, all operand values' % sym, backend='cadical')
            add('%s_int_small' % name, gen_binop(name, sym, kind, ipairs, 'small'), 'operator %s: result value on all 25 integer operand-type pairs, operands in 0..%d' % (sym, 15 if sym == '*' else 63), backend='cadical')
        else:
            add('%s_int' % name, gen_binop(name, sym, kind, ipairs), 'operator %s on %d pairs of {bool,int,unsigned,long,unsigned long}, symbolic type tags and values' % (sym, len(ipairs)), backend='cadical')
        quick_flt = ('lessThan', 'greaterThanEq', 'equal', 'notEqual', 'and', 'bitAnd', 'leftShift', 'mod')      # one or two operators of every kind in the quick tier
        if fpairs and kind in ('cmp', 'logic', 'bit', 'shl', 'shr', 'mod') and (thorough or name in quick_flt):
            add('%s_flt' % name, gen_binop(name, sym, kind, fpairs), 'operator %s on the %d operand-type pairs involving float/double' % (sym, len(fpairs)), timeout=1500 if thorough else 900, backend='cadical')
    for (name, sym, kind) in UNA:
        types = [t[0] for t in split(name, [(t,) for t in INT + FLT])]
        add('%s_all' % name, gen_unop(name, sym, kind, types), 'unary %s on %s' % (sym, ', '.join(TYPES[t] for t in types)), backend='cadical')
    # listed findings: one query on an operand-type combination of the class, which must still fail
    for k, (name, pr) in sorted(recon.items()):
        ent = [e for e in BIN + UNA if e[0] == name][0]
        txt = gen_binop(name, ent[1], ent[2], [pr]) if len(pr) == 2 else gen_unop(name, ent[1], ent[2], [pr[0]])
        add('known_%s' % k, txt, 're-confirm listed finding %s on %s %s' % (k, name, pr), backend='cadical')
        qs[-1].expect = 'fail'; qs[-1].known = 'key=%s %s' % (k, known[k])
    # short circuit of ?: (the real ternaryOpNode::evaluate with recording leaf doubles)
    try:
        Ls = C.lift(ctx, 'C14sc', os.path.join(H, 'wrap_sc.cpp'), ['s_ternary'], libocca=True, models=[os.path.join(H, 'models_sc.c')])
        qsc = Query('ternary-short-circuit', Ls, os.path.join(H, 'h_sc.c'), [], unwind=6, timeout=900, backend='cadical', desc='c ? t : f on symbolic 64-bit operands: value, and which operands are evaluated')
        qsc.no_ptr_overflow = True
        qs.append(qsc)
    except C.Inconclusive as ex_:
        ctx.inconclusive.append('short-circuit unit does not lift: %s' % str(ex_)[:300])
    if ctx.only:
        qs = [q for q in qs if re.search(ctx.only, q.name)]
    # known findings: excluded operand-type classes are re-proved without them, and re-confirmed
    # (wired below once counterexamples are classified)
    # translator validation on concrete vectors
    hp = [q for q in qs if q.name == 'add_int']
    if hp:
        vec = [dict(ta=6, tb=6, a=5, b=7), dict(ta=7, tb=6, a=1, b=0xffffffff), dict(ta=8, tb=1, a=1 << 40, b=1), dict(ta=9, tb=9, a=(1 << 64) - 1, b=2)]
        C.selftest(ctx, L, hp[0].harness, [], vec, 'add')
    C.run_queries(ctx, qs)
    ctx.bounds = {'operand types': 'bool, int, unsigned int, long, unsigned long, float, double (the types literals and operator results can have)',
                  'values': 'all 2^64 x 2^64 operand bit patterns per operator application (NaN operands excluded), restricted to applications defined in C++ (no signed overflow, division by zero, out-of-range or negative shifts)',
                  'depth': 'one operator application per query; results are again arbitrary primitives of the covered types, so trees compose by induction',
                  'outside': 'int8/int16 operands (not reachable from literals), long double, pointers, float multiply/divide/add (quick tier) - solver-hard, literal typing (primitive::load) and short-circuit evaluation are separate obligations'}
    ctx.assumptions += ['oracle = CBMC\'s C semantics of the same operator on the same operand types (LP64)', 'operator new never fails; occa::error modelled as a thrown exception (lift/errstub.hpp)']
    return C.finish(ctx)


def relift(ctx):
    return C.lift(ctx, 'C14', os.path.join(H, 'wrap.cpp'), ROOTS, ub=False, libocca=True)
