"""C29 C API values keep their value and type through conversions (E1: scalars).
Real src/occa/internal/c/types.cpp lifted from clang IR; CBMC decides over the entry point (symbolic selector among the 19
scalar constructors) and the full-width symbolic value."""
import os, re
from vlib import common as C
from vlib.common import Query
H = os.path.join(C.VERIF, 'harness', 'C29')
ROOTS = ['v_make', 'v_roundtrip', 'v_roundtrip_typed', 'v_kernelarg']


def relift(ctx):
    return C.lift(ctx, 'C29', os.path.join(H, 'wrap.cpp'), ROOTS, libocca=True)


def run(ctx):
    L = relift(ctx)
    known = dict(C.load_known('C29'))
    hs = os.path.join(H, 'h_scalar.c')
    qs = []
    names = {0: 'fields', 1: 'via-primitive', 2: 'via-primitive-typed', 3: 'kernel-argument'}
    # constructor fields: all 19 entry points in one query
    qs.append(Query('fields', L, hs, ['MODE=0'], unwind=12, timeout=1500, desc='constructor fields: all 19 scalar constructors, all values', backend='cadical'))
    # occaType -> occa::primitive -> occaType: the numeric constructors (occa converts occaBool through its own branch,
    # occa::c::inferJson, never through occa::c::primitive)
    for mode in (1, 2):
        qs.append(Query(names[mode], L, hs, ['MODE=%d' % mode, 'SKIP_BOOL'], unwind=12, timeout=1500, desc='%s: the 18 numeric constructors, all values' % names[mode], backend='cadical'))
    # kernel-argument conversion: one query per entry point (the selector is concrete: std::vector growth makes the joint query run out of memory)
    for k in range(19):
        qs.append(Query('kernel-argument-k%d' % k, L, hs, ['MODE=3', 'KFIX=%d' % k], unwind=12, timeout=1500, desc='occaType -> occa::kernelArg for entry point %d, all values' % k, backend='cadical'))
    if ctx.only:
        qs = [q for q in qs if re.search(ctx.only, q.name)]
    vec = [dict(k=5, bits=0xfffffffe), dict(k=0, bits=3), dict(k=10, bits=0x400921fb54442d18), dict(k=13, bits=0x18000), dict(k=18, bits=(1 << 64) - 1)]
    C.selftest(ctx, L, hs, ['MODE=0'], vec, 'mk')
    C.selftest(ctx, L, hs, ['MODE=1', 'SKIP_BOOL'], vec[:1] + vec[2:], 'rt')
    C.run_queries(ctx, qs)
    ctx.bounds = {'entry points': 'occaBool, occaInt8..occaUInt64, occaFloat, occaDouble, occaChar, occaUChar, occaShort, occaUShort, occaInt, occaUInt, occaLong, occaULong (symbolic selector)',
                  'values': 'all 2^64 bit patterns of the argument (incl. NaN payloads, compared bitwise)',
                  'conversions': 'constructor fields; occaType -> occa::primitive -> occaType (untyped and typed); occaType -> occa::kernelArg',
                  'outside': 'strings, JSON values and handle lifetimes through the C API (heap + occa::json containers: structural, no symbolic content a solver could quantify over); occaFree'}
    ctx.assumptions += ['operator new never fails; occa::error modelled as a thrown exception']
    return C.finish(ctx)
