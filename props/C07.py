"""C07 Editing an included header always invalidates stale cached kernels (E3: key-term extraction + SMT, as C06).

After a header edit the cache key of a kernel is re-derived by device::applyDependencyHash from the key of the first build and
the CURRENT contents of the recorded dependencies.  The check lets the real (hooked) library compute that key for a kernel with
two included headers (one of them including a third), reconstructs it as an XOR-of-hashes term from the hash trace, and asks z3:
are there two different states of the header contents (values over a small domain, the same content allowed in several files)
whose terms are equal for every hash function?  sat = a stale binary (or a cycle in the re-hash chain) without any hash
collision; the model is replayed as a history of builds in fresh processes sharing one cache directory.  Completeness of the
recorded dependency list and a few enumerated histories (edit, revert, edit again, nested header) are run on the real library."""
import os, re, json, shutil, time
from vlib import common as C, okl as O
from props import C06 as K

WORDS = K.WORDS
SRC = '''#include "a.h"
#include "b.h"
#include "n.h"
@kernel void k(int *out) {
  for (int o = 0; o < 1; ++o; @outer) {
    for (int i = 0; i < 4; ++i; @inner) {
      out[i] = 1000 * V3 + 100 * V1 + 10 * V2 + i;
    }
  }
}
'''
FILES = ['a.h', 'b.h', 'c.h']       # edited files; n.h (never edited) includes c.h, so c.h is a nested dependency
NESTING = 'n.h'


def content(name, w):
    v = 1 + WORDS.index(w)
    if name == 'c.h':
        return '#define V3 %d\n' % v
    # the same text is valid in a.h and in b.h (whichever is included first defines V1, the other V2)
    return '#ifndef V1\n#define V1 %d\n#else\n#define V2 %d\n#endif\n' % (v, v)


def body(w):
    return content('b.h', w)


class Hist:
    """one cache directory + one source directory; every build is a fresh process"""
    def __init__(self, E, tag):
        self.E = E
        self.dir = os.path.join(E.dir, 'h_' + tag); os.makedirs(self.dir, exist_ok=True)
        self.cache = os.path.join(self.dir, 'cache')
        self.src = os.path.join(self.dir, 'k.okl'); open(self.src, 'w').write(SRC)
        # the compiler is a wrapper around g++ that fails once when the flag file exists (a build that stops in the native compile)
        self.wrapper = os.path.join(self.dir, 'cxx.sh'); self.flag = os.path.join(self.dir, 'fail_once')
        open(self.wrapper, 'w').write('#!/bin/sh\ncase "$*" in *findCompilerVendor*) exec g++ "$@";; esac\nif [ -e "%s" ]; then rm -f "%s"; echo "compiler: simulated failure" >&2; exit 1; fi\nexec g++ "$@"\n' % (self.flag, self.flag))
        os.chmod(self.wrapper, 0o755)
        self.props = os.path.join(self.dir, 'p.json'); open(self.props, 'w').write(json.dumps({'compiler': self.wrapper}))

    def set(self, state):
        for f in FILES:
            open(os.path.join(self.dir, f), 'w').write(content(f, state[f]))
        open(os.path.join(self.dir, NESTING), 'w').write('#include "c.h"\n')

    def run(self, what, trace=False):
        env = {k: v for k, v in os.environ.items() if k not in K.ENV_DROP}
        env['OCCA_CACHE_DIR'] = self.cache; env['OCCA_DIR'] = C.REPO
        hl = os.path.join(self.dir, 'hashlog.txt')
        if os.path.exists(hl): os.remove(hl)
        if trace: env['OCCA_VERIF_HASHLOG'] = hl
        rc, o, e, s, _ = C.sh([self.E.exe, 'Serial', what, self.props, self.src], timeout=300, env=env, cwd=self.dir)
        r = {'rc': rc}
        m = re.search(r'KEY 0 ([0-9a-f]{64})', o); r['key'] = m.group(1) if m else None
        m = re.search(r'RUN 0 (.*)', o); r['run'] = m.group(1).strip() if m else None
        m = re.search(r'EXCEPTION 0 (.*)', o); r['exception'] = m.group(1)[:200] if m else None
        sec = []
        if trace and os.path.exists(hl):
            cur = False
            for ln in open(hl):
                f = ln.split()
                if f and f[0] == 'M': cur = int(f[1]) >= 0; continue
                if cur and f: sec.append(f)
        r['trace'] = sec
        return r


def expected(state):
    return ' '.join(str(1000 * (1 + WORDS.index(state['c.h'])) + 100 * (1 + WORDS.index(state['a.h'])) + 10 * (1 + WORDS.index(state['b.h'])) + i) for i in range(4))


def st(a, b, c):
    return {'a.h': a, 'b.h': b, 'c.h': c}


def run_history(E, tag, states):
    """builds in fresh processes after each edit; returns [(state, result, ok)].  A state with 'fail': True is built with a compiler
    that fails once: that build must not succeed, and it must not poison the builds after it."""
    h = Hist(E, tag); out = []
    for s in states:
        h.set(s)
        if s.get('fail'):
            open(h.flag, 'w').write('1')
        r = h.run('buildfile')
        if s.get('fail'):
            if r['run'] is not None or os.path.exists(h.flag):
                raise C.Inconclusive('history %s: the build that was meant to fail in the native compile did not (compiler wrapper not used for the kernel?)' % tag)
            out.append((s, {'rc': r['rc'], 'run': r['run'], 'exception': r['exception']}, True))
        else:
            out.append((s, {'rc': r['rc'], 'run': r['run'], 'exception': r['exception']}, r['run'] == expected(s)))
    return out


def run(ctx):
    thorough = ctx.tier == 'thorough'
    ctx.level = 'model_checking'
    E = K.Env(ctx); E.build_driver()
    slot = 0
    ctx.functions.update(['occa::device::applyDependencyHash', 'occa::device::setupKernelInfo', 'occa::device::buildKernel', 'occa::hashFile', 'occa::hash_t::operator^',
                          'occa::modeDevice_t::writeKernelBuildFile', 'occa::lang::preprocessor_t::processInclude (dependency capture, exercised through the driver)'])
    ctx.units.update(['src/core/device.cpp', 'src/utils/hash.cpp', 'src/occa/internal/core/device.cpp', 'src/occa/internal/lang/preprocessor.cpp'])
    # ---- extraction: first build in state S0, edit all three headers, let the hooked library re-derive the key
    S0 = st('a', 'b', 'ab'); S1 = st('aa', 'ba', 'bb')
    h = Hist(E, 'extract'); h.set(S0)
    r0 = h.run('buildfile')
    if r0['run'] != expected(S0):
        raise C.Inconclusive('first build of the C07 kernel failed or computed %s (expected %s): %s' % (r0['run'], expected(S0), r0))
    bj = None
    for root, _, fs in os.walk(h.cache):
        if 'build.json' in fs:
            try: cand = json.load(open(os.path.join(root, 'build.json')))
            except Exception: continue
            if 'dependencies' in (cand.get('kernel') or {}):
                bj = cand
    deps = sorted((bj or {}).get('kernel', {}).get('dependencies', {}).keys()) if bj else []
    rec = {'query': 'dependencies-recorded', 'desc': 'build.json of the first build lists every included file (a.h, b.h, n.h and the nested c.h)', 'seconds': 0, 'witness': 'reached', 'properties': 3,
           'status': 'pass' if sorted(os.path.basename(d) for d in deps) == sorted(FILES + [NESTING]) else 'fail', 'recorded': deps}
    ctx.queries.append(rec)
    if rec['status'] == 'fail':
        slot += 1; d = write_replay(ctx, slot, 'an included file is missing from the recorded dependencies', [S0, st('a', 'b', 'ba')])
        ctx.violations.append(('the dependency list of the first build is %s: an included header is not tracked' % [os.path.basename(x) for x in deps], d))
    h.set(S1)
    r1 = h.run('keyfile', trace=True)
    if not r1['key']:
        raise C.Inconclusive('the key after the edit could not be computed (rc=%s)' % r1['rc'])
    leaves, defs = K.term_of(r1['trace'], r1['key'])
    if K.xor_of_leaves(leaves, defs) != r1['key']:
        raise C.Inconclusive('flattened term does not reproduce the key')
    ctx.selftests += 1
    # how does each file's current content enter the term: as its text, or as the printed hash of its text
    rc, o, e, s_, _ = C.sh([E.exe, 'Serial', 'hashfile'] + [os.path.join(h.dir, f) for f in FILES], timeout=60, env={**os.environ, 'OCCA_DIR': C.REPO}, cwd=h.dir)
    hstr = dict(re.findall(r'HASHFILE \S*?(\w\.h) ([0-9a-f]+)', o))
    text_leaves = [k.decode('utf-8', 'replace') for k in leaves if not isinstance(k, tuple)]
    tm = {}
    for f in FILES:
        reps = [content(f, S1[f]), hstr.get(f, '\x00')]
        for t in text_leaves:
            for rep in reps:
                if rep in t and f not in tm:
                    i = t.index(rep); tm[f] = {'leaf': t, 'pre': t[:i], 'post': t[i + len(rep):], 'as': 'text' if rep == reps[0] else 'hash string'}
    ctx.extra['key_term'] = {'leaves': [t[:100] for t in sorted(text_leaves)], 'opaque': [k[1] for k in leaves if isinstance(k, tuple)],
                             'dependency leaves': {f: {k: v for k, v in t.items() if k != 'leaf'} for f, t in tm.items()}}
    ctx.queries.append({'query': 'term', 'desc': 'key re-derived after editing all three headers, as an XOR-of-hashes term (flattening reproduces the real key)', 'status': 'pass', 'seconds': 0, 'witness': 'reached', 'properties': 2,
                        'leaves': len(leaves)})
    for f in FILES:
        rec = {'query': 'covers/%s' % f, 'desc': 'the current content of %s reaches the re-derived key, and changing it changes the real key' % f, 'seconds': 0, 'witness': 'reached', 'properties': 1}
        s2 = dict(S1); s2[f] = 'b' if S1[f] != 'b' else 'a'
        h.set(s2); r2 = h.run('keyfile'); h.set(S1)
        ctx.selftests += 1
        if f not in tm or r2['key'] == r1['key']:
            rec['status'] = 'fail'; slot += 1
            d = write_replay(ctx, slot, 'the content of %s does not reach the key after an edit' % f, [S0, S1, s2])
            ctx.violations.append(('editing %s does not change the cache key (stale binary)' % f, d))
        else:
            rec['status'] = 'pass'
        ctx.queries.append(rec)
    # ---- SMT: two different content states with equal terms for every hash function
    vary = [f for f in FILES if f in tm]
    if len(vary) >= 2:
        # the same text can only sit in files of the same kind (a.h carries an extra include line, c.h defines another macro): the
        # abstract value w stands for the content body(w); per-file differences are part of pre/post when the leaf is the text
        const = [t for t in text_leaves if all(tm[f]['leaf'] != t for f in vary)]
        lv = [{'kind': 'const', 'text': 'const%d' % i} for i, t in enumerate(const)] + [{'kind': 'const', 'text': 'opaque' + k[1]} for k in leaves if isinstance(k, tuple)]
        for f in vary:
            pre, post = tm[f]['pre'], tm[f]['post']
            if tm[f]['as'] == 'text':
                # leaf = whole file text; the part that varies with w is the body; file-specific framing goes to pre
                full = content(f, S1[f]); bdy = body(S1[f]) if f != 'c.h' else full
                i = full.index(bdy); pre = pre + full[:i]; post = full[i + len(bdy):] + post
                pre = pre + ('C:' if f == 'c.h' else '')          # c.h bodies are a different text family than a.h/b.h bodies
            lv.append({'kind': 'prop', 'prop': f.replace('.', '_'), 'pre': pre, 'post': post, 'unset': ''})
        q = {'leaves': lv, 'props': [f.replace('.', '_') for f in vary], 'vary': [f.replace('.', '_') for f in vary], 'all_set': True, 'timeout_ms': 240000}
        r, dt = K.smt(ctx, 'deps', q)
        rec = {'query': 'collision/contents', 'seconds': round(dt, 2), 'backend': 'z3 (strings)', 'witness': 'reached', 'properties': len(lv) * 2 + 1, 'result': r.get('result'),
               'desc': 'two different states of the contents of %s (7 values each, the same content allowed in several files) whose re-derived keys are equal for every hash function' % vary}
        if r.get('result') == 'unsat':
            rec['status'] = 'pass'
        elif r.get('result') == 'sat':
            A = dict(S1); B = dict(S1)
            for f in vary:
                A[f] = r['configs']['A'][f.replace('.', '_')]; B[f] = r['configs']['B'][f.replace('.', '_')]
            rec['model'] = {'A': A, 'B': B}
            hist = run_history(E, 'replay', [S0, A, B])
            rec['native'] = [(s, res, ok) for (s, res, ok) in hist]
            if all(ok for (_, _, ok) in hist):
                rec['status'] = 'inconclusive'; ctx.inconclusive.append('collision/contents: the solver model did not reproduce on the real library (every build of the history ran current code)')
            else:
                rec['status'] = 'fail'; ctx.selftests += 1; slot += 1
                bad = [(s, res) for (s, res, ok) in hist if not ok][0]
                d = write_replay(ctx, slot, 'history of header edits after which a build does not run code for the current contents', [S0, A, B])
                ctx.violations.append(('history %s -> %s -> %s: the build in state %s gave %s (expected %s)' % (S0, A, B, bad[0], bad[1]['run'] or ('rc=%s %s' % (bad[1]['rc'], bad[1]['exception'] or 'crash')), expected(bad[0])), d))
        else:
            rec['status'] = 'inconclusive'; ctx.inconclusive.append('collision/contents: solver answered %s %s' % (r.get('result'), r.get('detail', '')))
        ctx.queries.append(rec)
    # ---- enumerated histories on the real library (encoder validation + the clauses about reverts and nested headers)
    H = [('edit-revert', [S0, S1, S0]), ('edit-edit-back', [S0, S1, st('b', 'a', 'ab'), S1]), ('nested-only', [S0, st('a', 'b', 'ba'), st('a', 'b', 'aa'), S0]),
         ('one-file', [S0, st('aa', 'b', 'ab'), st('aa', 'bb', 'ab')]),
         ('failed-compile-then-edit', [dict(S0, fail=True), S1, S1, S0]), ('edit-failed-compile-edit', [S0, dict(S1, fail=True), st('b', 'a', 'ab'), S1])]
    if thorough:
        H += [('long', [S0, S1, st('b', 'b', 'a'), st('b', 'a', 'a'), S1, S0, st('a', 'b', 'a')]), ('alternate', [S0, S1, S0, S1, S0])]
    for tag, states in H:
        hist = run_history(E, tag, states)
        rec = {'query': 'history/%s' % tag, 'desc': 'builds in fresh processes after each edit (! = the native compile of that build fails): %s' % ' -> '.join('%s%s%s%s' % (1 + WORDS.index(s['a.h']), 1 + WORDS.index(s['b.h']), 1 + WORDS.index(s['c.h']), '!' if s.get('fail') else '') for s in states),
               'seconds': 0, 'witness': 'reached', 'properties': len(states), 'status': 'pass' if all(ok for (_, _, ok) in hist) else 'fail'}
        ctx.selftests += 1
        if rec['status'] == 'fail':
            slot += 1; bad = [(s, res) for (s, res, ok) in hist if not ok][0]
            d = write_replay(ctx, slot, 'history of header edits after which a build does not run code for the current contents', states)
            ctx.violations.append(('history %s: the build in state %s gave %s (expected %s)' % (tag, bad[0], bad[1]['run'] or ('rc=%s' % bad[1]['rc']), expected(bad[0])), d))
        ctx.queries.append(rec)
    ctx.samples = [{'key term after an edit (XOR of hashes of these strings)': ctx.extra['key_term']['leaves'][:12], 'dependency leaves': ctx.extra['key_term']['dependency leaves']}] + \
                  [{k: r.get(k) for k in ('query', 'desc', 'status', 'result', 'model')} for r in ctx.queries if r['query'].startswith(('collision', 'history'))][:3]
    ctx.bounds = {'include graph': 'one kernel file including a.h, b.h and n.h, n.h including c.h (four dependencies, one nested; a.h, b.h and c.h are edited)',
                  'contents': 'SMT: 7 contents per file, the same content allowed in a.h and b.h; term shape taken from one edit of all three files',
                  'histories': '%d enumerated histories of up to %d edits replayed on the real library in fresh processes sharing one cache directory (edit, revert, re-edit, nested header only, a build whose native compile fails before or after an edit)' % (len(H), max(len(s) for _, s in H) - 1),
                  'outside': 'collisions of the 256-bit hash itself; adding or removing #include lines between builds (include-graph changes); more than three dependencies; include-path shadowing; files removed between builds; non-Serial devices; the preprocessor itself (dependency capture is only observed on this include graph)'}
    ctx.assumptions += ['as C06: the hook logs every occa::hash over bytes and every XOR; equality of XOR-of-hash terms for every H <=> every string occurs an even number of times',
                        'a binary stored under a key was compiled from the contents that produced that key (the build reads the files it hashes in the same process)']
    ctx.models.update(['z3 string theory (harness/C06/smt.py)', 'harness/C06/driver.cpp (device::buildKernel / setupKernelInfo of the real library)'])
    return C.finish(ctx, rule='one evaluation = one decision: the z3 query over the extracted key term, a term-membership decision confirmed on the real library, or one enumerated history run on the real library; non-trivial = decided')


def write_replay(ctx, slot, desc, states):
    d = os.path.join(C.REPLAY_DIR, 'C07_%d' % slot); os.makedirs(d, exist_ok=True)
    json.dump({'kind': 'mod', 'property': 'C07', 'states': states, 'desc': desc}, open(os.path.join(d, 'meta.json'), 'w'), indent=1)
    open(os.path.join(d, 'README.txt'), 'w').write('property C07: %s\nhistory of header states (value index per file, see props/C07.py content()): %s\nreplay: %s/check C07 --replay %s\n' % (desc, states, C.VERIF, d))
    return d


def replay_dir(ctx, d):
    meta = json.load(open(os.path.join(d, 'meta.json')))
    E = K.Env(ctx); E.build_driver()
    hist = run_history(E, 'replay', meta['states'])
    bad = [x for x in hist if not x[2]]
    for s, res, ok in hist:
        print('state %s -> %s (expected %s) %s' % (s, res['run'] or ('rc=%s %s' % (res['rc'], res['exception'] or '')), expected(s), 'ok' if ok else 'WRONG'))
    print('replay rc=%d (%s)' % (1 if bad else 0, 'reproduced: a build did not run code for the current header contents' if bad else 'not reproduced'))
    return 1 if bad else 0
