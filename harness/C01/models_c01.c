/* C01: the occa::json member of modeBuffer_t and the device's memory ring are outside the handle layer under test
 * (the buffer is only needed to run modeMemory_t's constructor): their functions are empty here. */
char* _ZN4occa4json5clearEv(char* p0) { return p0; }
void _ZN4occa4jsonC2ERKS0_(char* a, char* b) { }
void _ZN4occa4jsonC1ERKS0_(char* a, char* b) { }
void _ZN4occa4jsonD1Ev(char* p0) { }
void _ZN4occa4jsonD2Ev(char* p0) { }
void _ZN4occa12modeDevice_t12addMemoryRefEPNS_12modeBuffer_tE(char* p0, char* p1) { }
void _ZN4occa12modeDevice_t15removeMemoryRefEPNS_12modeBuffer_tE(char* p0, char* p1) { }
