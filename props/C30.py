"""C30 with sharable devices, concurrent handle use is race-free (E1 + CBMC threads: all interleavings of 2 threads x 1 operation)."""
import os, re
from vlib import common as C
from vlib.common import Query
H = os.path.join(C.VERIF, 'harness', 'C30')
H1 = os.path.join(C.VERIF, 'harness', 'C01')
from props.C01 import ROOTS
SC = {0: 'two threads drop the last two handles of one object', 1: 'two threads drop two of three handles', 2: 'one thread copies a handle while the other drops another handle of the same object'}


def relift(ctx):
    return C.lift(ctx, 'C30', os.path.join(H1, 'wrap.cpp'), ROOTS, sharable=1, libocca=True, models=[os.path.join(H1, 'models_c01.c'), os.path.join(H, 'models_c30.c')])


def run(ctx):
    L = relift(ctx)
    known = dict(C.load_known('C30'))
    hs = os.path.join(H, 'h_race.c')
    qs = []
    for sc in (0, 1, 2):
        key = 'scen%d' % sc
        kk = [k for k in known if k.endswith(key)]
        q = Query('scenario-%d' % sc, L, hs, ['SCEN=%d' % sc], unwind=6, timeout=900, backend=None, desc=SC[sc] + '; every interleaving of the two operations (sequential consistency)')
        q.no_ptr_overflow = True
        if kk:
            q.expect = 'fail'; q.known = 'key=%s %s' % (kk[0], known[kk[0]]); q.name += '/known'
        qs.append(q)
    if ctx.only:
        qs = [q for q in qs if re.search(ctx.only, q.name)]
    C.run_queries(ctx, qs)
    ctx.bounds = {'threads': '2 threads, one handle operation each (scope exit / copy-assignment), on occa::memory handles of ONE shared backend object, from a concrete state built with the real constructors',
                  'schedules': 'ALL interleavings at the granularity of shared-memory accesses (CBMC partial-order encoding, sequential consistency); occa::mutex_t is a CBMC lock',
                  'outside': 'more than 2 threads or more than one operation per thread, weak memory, kernel builds and allocation counters under threads, handle types other than occa::memory'}
    ctx.assumptions += ['compiled with OCCA_THREAD_SHARABLE_ENABLED 1 (what ENABLE_SHARABLE_DEVICE sets)', 'buffer layer cut as in C01', 'operator new never fails; malloc/free are atomic']
    return C.finish(ctx)
