// C02 byte level: the real Serial backend (serial::buffer, serial::memory) under the real occa::memory request validation.
// A buffer wraps a harness-owned byte array, so every byte a request reads or writes is visible to the harness and CBMC's
// bounds checks see the true object sizes.
#include <string>
#include <vector>
#include <map>
#include <iostream>
#include <sstream>
#define private public
#define protected public
#include "core/memory.cpp"
#include "occa/internal/core/memory.cpp"
#include "occa/internal/core/buffer.cpp"
#include "occa/internal/modes/serial/memory.cpp"
#include "occa/internal/modes/serial/buffer.cpp"
#include "dtype/dtype.cpp"
#include "occa/internal/utils/gc.cpp"
#include "errstub.hpp"
#include <cstring>
#include <new>
#define VX extern "C" __attribute__((noinline))
using occa::memory;
struct sbuf : public occa::serial::buffer {
  sbuf(occa::modeDevice_t *d) : occa::serial::buffer(d, 0, occa::json()) {}
  bool needsFree() const { return false; }      // buffers outlive the requests (their lifetime is not the subject)
};
struct rawdt { alignas(occa::dtype_t) char b[sizeof(occa::dtype_t)]; };
static rawdt g_dt[2];
static sbuf *g_buf[2];
static memory *g_m[2];
VX void b_setup(char *store0, long n0, char *store1, long n1, long base0, long size0, int d0, long base1, long size1, int d1) {
  struct fakedev_t { alignas(occa::modeDevice_t) char b[sizeof(occa::modeDevice_t)]; };
  static fakedev_t fd;
  memset(fd.b, 0, sizeof(fd.b));
  for (int k = 0; k < 2; k++) {
    g_buf[k] = new sbuf(reinterpret_cast<occa::modeDevice_t*>(fd.b));
    g_buf[k]->wrapMemory(k ? store1 : store0, (occa::udim_t) (k ? n1 : n0));
    memset(g_dt[k].b, 0, sizeof(g_dt[k].b));
    occa::dtype_t *dt = reinterpret_cast<occa::dtype_t*>(g_dt[k].b);
    dt->bytes_ = k ? d1 : d0; dt->registered = true;
  }
  g_m[0] = new memory(g_buf[0]->slice(base0, (occa::udim_t) size0));
  g_m[0]->getModeMemory()->dtype_ = reinterpret_cast<occa::dtype_t*>(g_dt[0].b);
  g_m[1] = new memory(g_buf[1]->slice(base1, (occa::udim_t) size1));
  g_m[1]->getModeMemory()->dtype_ = reinterpret_cast<occa::dtype_t*>(g_dt[1].b);
}
VX int b_copy_from_ptr(const char *src, long count, long offset) { try { g_m[0]->copyFrom((const void*) src, count, offset); return 0; } catch (...) { return 1; } }
VX int b_copy_to_ptr(char *dst, long count, long offset) { try { g_m[0]->copyTo((void*) dst, count, offset); return 0; } catch (...) { return 1; } }
VX int b_copy_from_mem(long count, long doff, long soff) { try { g_m[0]->copyFrom(*g_m[1], count, doff, soff); return 0; } catch (...) { return 1; } }
// slice of memory 0, then a host-to-device copy THROUGH THE SLICE (aliasing: the parent's bytes must change)
VX int b_slice_write(long offset, long count, const char *src, long wcount, long woff) {
  try { memory s = g_m[0]->slice(offset, count); s.dontUseRefs(); s.copyFrom((const void*) src, wcount, woff); return 0; } catch (...) { return 1; }
}
