"""C12 tokenizer leaves: totality and re-reading of printed string/char literals (E1, leaf-first)."""
import os, re
from vlib import common as C
from vlib.common import Query
H = os.path.join(C.VERIF, 'harness', 'C12')
ROOTS = ['l_unescape', 'l_escape', 'l_skipto', 'l_total']


def relift(ctx):
    return C.lift(ctx, 'C12', os.path.join(H, 'wrap.cpp'), ROOTS, libocca=True)


def run(ctx):
    thorough = ctx.tier == 'thorough'
    L = relift(ctx)
    NB = 5 if thorough else 4
    qs = []
    for n in range(0, NB + 1):
        for qsel in (0, 1):
            qs.append(Query('reread-n%d-%s' % (n, 'dq' if qsel else 'sq'), L, os.path.join(H, 'h_reread.c'), ['NB=%d' % NB, 'NFIX=%d' % n, 'QSEL=%d' % qsel], unwind=18, timeout=1800 if thorough else 300, backend='cadical',
                            desc='literal body of exactly %d symbolic bytes, quote %s: printed literal ends where the tokenizer ends it and re-reads to the same value' % (n, '"' if qsel else "'")))
    for qsel in (0, 1):
        qs.append(Query('total-%s' % ('dq' if qsel else 'sq'), L, os.path.join(H, 'h_total.c'), ['NB=%d' % (NB - 1), 'QSEL=%d' % qsel], unwind=18, timeout=1800 if thorough else 300, backend='cadical',
                        desc='skipTo/skipFrom/skipWhitespace/escape/unescape on %d arbitrary bytes: in bounds, terminating' % (NB - 1)))
    if ctx.only:
        qs = [q for q in qs if re.search(ctx.only, q.name)]
    C.selftest(ctx, L, os.path.join(H, 'h_reread.c'), ['NB=%d' % NB], [dict(raw=[92, 34, 97, 98], n=4, qsel=1), dict(raw=[97, 92, 92, 39], n=3, qsel=0), dict(raw=[0] * 4, n=0, qsel=1)], 'rr')
    C.run_queries(ctx, qs)
    ctx.bounds = {'bytes': 'literal bodies of <= %d arbitrary bytes (well formed: no newline, quotes escaped, no dangling backslash); %d arbitrary bytes for totality' % (NB, NB - 1),
                  'units': 'occa::escape, occa::unescape (utils/string.cpp), lex::skipTo/skipFrom/skipWhitespace/skipToWhitespace (utils/lex.cpp) - the functions tokenizer_t::getString/getCharToken and stringToken/charToken/stringNode/charNode::print are built from',
                  'outside': 'tokenizer_t::getToken itself (origin stack, heap tokens: beyond the few symbolic bytes the lifted parser tolerates), identifiers/numbers/operators (operator longest match is the frozen trie of C28), comments, raw strings, longer inputs'}
    ctx.assumptions += ['operator new never fails; real libstdc++ std::string code in the IR']
    return C.finish(ctx)
