// C23 driver: lets the REAL library build the kernels behind occa::array operations (map family) for one array length and
// tile configuration on a Serial/OpenMP device.  The generated OKL sources are then read from the kernel cache directory.
//   arrdrv <mode> <length> <tileSize or 0 for the default> <tileIterations> <op>
#include <occa.hpp>
#include <occa/functional.hpp>
#include <cstdio>
#include <cstdlib>
int main(int argc, char **argv) {
  if (argc < 6) return 2;
  const char *mode = argv[1]; const int L = atoi(argv[2]), T = atoi(argv[3]), K = atoi(argv[4]), op = atoi(argv[5]);
  try {
    occa::device dev(std::string("{mode: '") + mode + "'}");
    printf("MODE %s\n", dev.mode().c_str());
    occa::setDevice(dev);
    int *h = new int[L + 1]; for (int i = 0; i < L; ++i) h[i] = 3 * i - 4;
    occa::array<int> a(occa::malloc<int>(L, h));
    if (T > 0) a.setTileSize(T, K);
    occa::array<int> out(L);
    int *o = new int[L + 1];
    switch (op) {
      case 0: a.mapTo(out, OCCA_FUNCTION([](const int &v) -> int { return 2 * v + 1; })); break;
      case 1: a.mapTo(out, OCCA_FUNCTION([](const int &v, const int index) -> int { return 2 * v + index; })); break;
      case 2: a.mapTo(out, OCCA_FUNCTION([](const int &v, const int index, const int *values) -> int { return v - values[0] + index; })); break;
      case 3: out = a.reverse(); break;
      case 4: out = a.shiftLeft(2, 7); break;
      case 5: out = a.shiftRight(1, -3); break;
      case 6: out = a.clamp(-1, 9); break;
      case 7: { int r = a.findIndex(OCCA_FUNCTION([](const int &v) -> bool { return v >= 5; })); printf("OUT %d\n", r); return 0; }
      case 8: { int r = a.reduce<int>(occa::reductionType::sum, OCCA_FUNCTION([](const int &acc, const int &v) -> int { return acc + v; })); printf("OUT %d\n", r); return 0; }
      case 9: { int r = a.max(); printf("OUT %d\n", r); return 0; }
      case 10: { int r = a.min(); printf("OUT %d\n", r); return 0; }
      default: return 2;
    }
    out.memory().copyTo(o);
    printf("OUT"); for (int i = 0; i < L; ++i) printf(" %d", o[i]); printf("\n");
  } catch (occa::exception &e) { printf("EXCEPTION %s\n", e.message.c_str()); return 3; }
  return 0;
}
